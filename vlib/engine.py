"""Engine: snapshot /repo, emit harness crates, run rustc (acceptance) and Kani (solve), parse
verdicts, obtain concrete counterexamples, replay them natively."""
from __future__ import annotations
import json, os, re, shutil, subprocess, sys, time, hashlib
from dataclasses import dataclass, field as dfield
from typing import Optional

VERIF = os.path.dirname(os.path.dirname(os.path.abspath(__file__)))
# scratch / output locations can be redirected (used when checks are run against seeded trees so that
# the committed evidence and the shared work directory are left alone)
WORK = os.environ.get("VERIF_WORK") or os.path.join(VERIF, "work")
OUT = os.environ.get("VERIF_OUT") or VERIF
KANI_TOOLCHAIN = "nightly-2026-08-21"
NCPU = os.cpu_count() or 8


def log(*a):
    print(*a, file=sys.stderr, flush=True)


def env_offline(extra=None):
    e = dict(os.environ)
    e["CARGO_NET_OFFLINE"] = "true"
    e.pop("RUSTFLAGS", None)
    e.pop("CARGO_TARGET_DIR", None)
    e.pop("CARGO_BUILD_TARGET_DIR", None)
    e["CARGO_TERM_COLOR"] = "never"
    if extra:
        e.update(extra)
    return e


def sh(cmd, cwd=None, env=None, timeout=None, vmem_gb=None):
    """run, capture; returns (rc, stdout, stderr, wall). rc = -9 on timeout."""
    t0 = time.time()
    pre = None
    if vmem_gb:
        import resource

        def pre():
            resource.setrlimit(resource.RLIMIT_AS, (vmem_gb << 30, vmem_gb << 30))
            os.setsid()
    else:
        pre = os.setsid
    p = subprocess.Popen(cmd, cwd=cwd, env=env or env_offline(), stdout=subprocess.PIPE,
                         stderr=subprocess.PIPE, text=True, preexec_fn=pre)
    try:
        out, err = p.communicate(timeout=timeout)
        rc = p.returncode
    except subprocess.TimeoutExpired:
        try:
            os.killpg(p.pid, 9)
        except Exception:
            pass
        out, err = p.communicate()
        rc = -9
    return rc, out, err, time.time() - t0


# ----------------------------------------------------------------------------------------------
@dataclass
class Harness:
    name: str  # fn name (unique within its layout module)
    body: str  # statements
    expect: str = "pass"  # pass | oob | reach | control
    family: str = ""
    prop: str = ""
    field: str = ""
    funcs: tuple = ()
    reach: tuple = ()  # extra cover labels that must be SATISFIED (expect == 'reach' or 'pass')
    stubs: tuple = ()  # (orig, replacement) for -Z stubbing
    role: str = ""  # role-based signature for known findings
    note: str = ""
    unwind: Optional[int] = None
    solver: Optional[str] = None


@dataclass
class Unit:
    """one layout (or enum) = one module file with its declaration and harnesses"""
    uid: str  # module name, e.g. l0001
    decl: str
    harnesses: list
    meta: dict = dfield(default_factory=dict)  # anything the property driver wants to keep (layout object, tags)
    pre: str = ""  # extra items placed before the declaration (not macro-subject)


RUST_ALLOW = "#![allow(unused, deprecated, non_camel_case_types, non_snake_case, non_upper_case_globals, unreachable_patterns, unreachable_code, clippy::all)]"


class Crate:
    def __init__(self, root, name, units, dep_bitbybit, lockfile, release_macro=False, extra_rt=(), features_nightly=(), nostd=False):
        self.nostd = nostd  # a #![no_std] crate holding only the declarations (no runtime, no harnesses)
        self.root = root
        self.name = name
        self.units = units
        self.dep = dep_bitbybit
        self.lock = lockfile
        self.release_macro = release_macro
        self.extra_rt = list(extra_rt)
        self.spans = {}  # uid -> {'decl': (a,b), 'h': {hname: (a,b)}}
        self.features_nightly = features_nightly

    def cargo_toml(self):
        s = f"""[package]
name = "{self.name}"
version = "0.0.0"
edition = "2021"

[lib]
path = "src/lib.rs"

[dependencies]
bitbybit = {{ path = "{self.dep}" }}
arbitrary-int = "=1.3.0"

[workspace]

[lints.rust]
unexpected_cfgs = {{ level = "allow", check-cfg = ['cfg(kani)'] }}
"""
        if self.release_macro:
            s += """
# build the proc-macro the way `cargo build --release` builds it (host artefacts are built with
# the release profile's settings there): no overflow checks, no debug assertions
[profile.dev.build-override]
overflow-checks = false
debug-assertions = false
opt-level = 0
"""
        return s

    def module_text(self, u: Unit):
        lines = []
        if self.nostd:
            lines += ["use bitbybit::{bitfield, bitenum};", "use arbitrary_int::*;"]
            a = len(lines) + 1
            lines += u.decl.split("\n")
            self.spans[u.uid] = {"decl": (a, len(lines)), "h": {}}
            return "\n".join(lines) + "\n"
        lines.append("use crate::rt::spec;")
        lines.append("use crate::rt::vany::*;")
        lines.append("use crate::{vcover, vend};")
        lines.append("use bitbybit::{bitfield, bitenum};")
        lines.append("use arbitrary_int::*;")
        if u.pre:
            lines += u.pre.split("\n")
        a = len(lines) + 1
        lines += u.decl.split("\n")
        b = len(lines)
        sp = {"decl": (a, b), "h": {}}
        for h in u.harnesses:
            ha = len(lines) + 1
            attrs = []
            attrs.append("#[cfg_attr(kani, kani::proof)]")
            for (orig, repl) in h.stubs:
                attrs.append(f"#[cfg_attr(kani, kani::stub({orig}, {repl}))]")
            if h.unwind:
                attrs.append(f"#[cfg_attr(kani, kani::unwind({h.unwind}))]")
            if h.solver:
                attrs.append(f"#[cfg_attr(kani, kani::solver({h.solver}))]")
            lines += attrs
            lines.append(f"pub fn {h.name}() {{")
            lines += ["    " + l for l in h.body.split("\n")]
            lines.append("}")
            sp["h"][h.name] = (ha, len(lines))
        self.spans[u.uid] = sp
        return "\n".join(lines) + "\n"

    def write(self, only_if_changed=True):
        src = os.path.join(self.root, "src")
        os.makedirs(os.path.join(src, "rt"), exist_ok=True)
        files = {}
        files["Cargo.toml"] = self.cargo_toml()
        lib = [RUST_ALLOW]
        if self.nostd:
            lib = ["#![no_std]", RUST_ALLOW] + [f"pub mod {u.uid};" for u in self.units]
            files["src/lib.rs"] = "\n".join(lib) + "\n"
            for u in self.units:
                files[f"src/{u.uid}.rs"] = self.module_text(u)
            lib = None
        for f in (self.features_nightly if lib is not None else ()):
            lib.append(f"#![cfg_attr(kani, feature({f}))]")
        if lib is not None:
            lib.append("pub mod rt { pub mod spec; pub mod vany; #[cfg(not(kani))] pub mod selftest; " + " ".join(f"pub mod {os.path.splitext(os.path.basename(x))[0]};" for x in self.extra_rt) + " }")
            for u in self.units:
                lib.append(f"pub mod {u.uid};")
            files["src/lib.rs"] = "\n".join(lib) + "\n"
            for rt in ["spec.rs", "vany.rs", "selftest.rs"] + [os.path.basename(x) for x in self.extra_rt]:
                files["src/rt/" + rt] = open(os.path.join(VERIF, "rt", rt)).read()
            for u in self.units:
                files[f"src/{u.uid}.rs"] = self.module_text(u)
        # remove stale module files
        keep = set(files)
        for dirpath, _, fns in os.walk(src):
            for fn in fns:
                rel = os.path.relpath(os.path.join(dirpath, fn), self.root)
                if rel not in keep:
                    os.remove(os.path.join(dirpath, fn))
        for rel, txt in files.items():
            p = os.path.join(self.root, rel)
            os.makedirs(os.path.dirname(p), exist_ok=True)
            if only_if_changed and os.path.exists(p) and open(p).read() == txt:
                continue
            with open(p, "w") as fh:
                fh.write(txt)
        shutil.copyfile(self.lock, os.path.join(self.root, "Cargo.lock"))

    # -- map a diagnostic to (uid, 'decl' | harness name | None) --------------------------------
    def locate(self, diag):
        hits = []

        def walk(sp):
            if not sp:
                return
            fn = sp.get("file_name", "")
            m = re.match(r"src/([A-Za-z]\w*)\.rs$", fn)
            if m and m.group(1) in self.spans:
                hits.append((m.group(1), sp.get("line_start", 0)))
            exp = sp.get("expansion")
            if exp:
                walk(exp.get("span"))

        for sp in diag.get("spans", []):
            walk(sp)
        for ch in diag.get("children", []):
            for sp in ch.get("spans", []):
                walk(sp)
        res = []
        for (uid, line) in hits:
            s = self.spans[uid]
            where = None
            if s["decl"][0] <= line <= s["decl"][1]:
                where = "decl"
            else:
                for hn, (a, b) in s["h"].items():
                    if a <= line <= b:
                        where = hn
                        break
            res.append((uid, where))
        # prefer harness hits (a type error in a harness body whose expansion chain also touches
        # the declaration is still a harness error); else decl
        for r in res:
            if r[1] not in (None, "decl"):
                return r
        for r in res:
            if r[1] == "decl":
                return r
        return res[0] if res else (None, None)


def snapshot_repo(repo, dest):
    """content-compare copy of the macro crate (and lock file) so that cargo sees a changed file
    whenever the content changed, regardless of mtimes"""
    os.makedirs(dest, exist_ok=True)
    rc, out, err, _ = sh(["rsync", "-a", "--delete", "--checksum", "--no-times", "--omit-dir-times",
                          "--exclude", "target", os.path.join(repo, "bitbybit") + "/", os.path.join(dest, "bitbybit") + "/"])
    if rc != 0:
        raise RuntimeError("rsync failed: " + err)
    # files that were updated by --checksum get the current time as mtime (no --times), good
    shutil.copyfile(os.path.join(repo, "Cargo.lock"), os.path.join(dest, "Cargo.lock"))
    h = hashlib.sha256()
    for dirpath, dirs, fns in os.walk(os.path.join(dest, "bitbybit")):
        dirs.sort()
        for fn in sorted(fns):
            p = os.path.join(dirpath, fn)
            h.update(os.path.relpath(p, dest).encode())
            h.update(open(p, "rb").read())
    return h.hexdigest()[:16]


def cargo_check(crate: Crate, target_dir, timeout=900):
    """returns (ok, diagnostics[list of dict: level,message,rendered,uid,where]) using Kani's toolchain"""
    env = env_offline({"RUSTUP_TOOLCHAIN": KANI_TOOLCHAIN})
    rc, out, err, wall = sh(["cargo", "check", "--lib", "--message-format=json", "--target-dir", target_dir, "-j", str(NCPU)],
                            cwd=crate.root, env=env, timeout=timeout)
    diags = []
    for line in out.splitlines():
        if not line.startswith("{"):
            continue
        try:
            m = json.loads(line)
        except Exception:
            continue
        if m.get("reason") != "compiler-message":
            continue
        d = m["message"]
        if d.get("level") not in ("error", "error: internal compiler error"):
            continue
        uid, where = crate.locate(d)
        diags.append({"level": d["level"], "message": d["message"], "rendered": d.get("rendered", ""), "uid": uid, "where": where,
                      "package": m.get("package_id", "")})
    ok = (rc == 0)
    return ok, diags, err, wall


def accept_pass(crate: Crate, target_dir, max_rounds=12):
    """Run G (the macro) and rustc over the crate; peel off rejected declarations and
    ill-typed harnesses until the crate is clean.
    returns rejected: {uid: [messages]}, herrors: {(uid, hname): [messages]}, fatal: str|None"""
    rejected, herrors = {}, {}
    rounds = 0
    wall = 0.0
    while True:
        rounds += 1
        crate.write()
        ok, diags, err, w = cargo_check(crate, target_dir)
        wall += w
        if ok:
            return rejected, herrors, None, rounds, wall
        if not diags:
            return rejected, herrors, "cargo check failed without located diagnostics:\n" + err[-3000:], rounds, wall
        progress = False
        for d in diags:
            if d["uid"] is None:
                # error in bitbybit itself or in rt/: fatal
                return rejected, herrors, "unlocated compiler error: " + d["rendered"][:3000], rounds, wall
            if d["where"] in (None, "decl"):
                rejected.setdefault(d["uid"], []).append(d["rendered"] or d["message"])
            else:
                herrors.setdefault((d["uid"], d["where"]), []).append(d["rendered"] or d["message"])
        # a declaration that was rejected takes its harnesses with it (their "cannot find type" errors
        # are a consequence, not an API-shape finding)
        for key in [k for k in herrors if k[0] in rejected]:
            del herrors[key]
        new_units = []
        for u in crate.units:
            if u.uid in rejected:
                progress = True
                continue
            hs = [h for h in u.harnesses if (u.uid, h.name) not in herrors]
            if len(hs) != len(u.harnesses):
                progress = True
                u = Unit(u.uid, u.decl, hs, u.meta, u.pre)
            new_units.append(u)
        crate.units = new_units
        if not progress or rounds >= max_rounds:
            return rejected, herrors, "acceptance pass did not converge", rounds, wall


# ----------------------------------------------------------------------------------------------
def run_kani(crate: Crate, target_dir, jobs=NCPU, stubbing=False, harness_timeout=300, timeout=3600, vmem_gb=40, only=None,
             solver=None):
    """returns dict: ok(bool build ok), results {pretty_name: {...}}, raw log tail, wall"""
    js = os.path.join(crate.root, "kani_out.json")
    if os.path.exists(js):
        os.remove(js)
    cmd = ["cargo", "kani", "--target-dir", target_dir, "-j", str(jobs), "--output-format", "terse",
           "-Z", "unstable-options", "--export-json", js, "--harness-timeout", f"{harness_timeout}s"]
    if stubbing:
        cmd += ["-Z", "stubbing"]
    if solver:
        cmd += ["--solver", solver]
    if only:
        for h in only:
            cmd += ["--harness", h]
        cmd += ["--exact"]
    rc, out, err, wall = sh(cmd, cwd=crate.root, timeout=timeout, vmem_gb=None)
    logp = os.path.join(crate.root, "kani.log")
    with open(logp, "w") as fh:
        fh.write(out)
        fh.write("\n==== STDERR ====\n")
        fh.write(err)
    res = {"rc": rc, "wall": wall, "log": logp, "results": {}, "built": False, "tools": {}}
    if not os.path.exists(js):
        res["tail"] = (out[-2000:] + "\n" + err[-4000:])
        return res
    try:
        d = json.load(open(js))
    except Exception as e:
        res["tail"] = f"bad json: {e}"
        return res
    res["built"] = True
    res["tools"] = d.get("tools", {})
    stats = {x["harness_id"]: x.get("cbmc_stats", {}) for x in d.get("cbmc", [])}
    for r in d.get("verification_results", {}).get("results", []):
        hid = r["harness_id"]
        res["results"][hid] = {"status": r["status"], "duration_ms": r.get("duration_ms", 0), "checks": r.get("checks", []),
                               "stats": stats.get(hid, {})}
    errd = {x["harness_id"]: x for x in d.get("error_details", [])}
    for hid, e in errd.items():
        if hid in res["results"]:
            res["results"][hid]["error"] = e
        else:
            res["results"][hid] = {"status": "Error", "duration_ms": 0, "checks": [], "stats": {}, "error": e}
    res["summary"] = d.get("verification_results", {}).get("summary", {})
    return res


PLAY_RE = re.compile(r"Concrete playback unit test for `([^`]+)`:\n```\n(.*?)\n```", re.S)


def playback(crate: Crate, target_dir, harness_pretty, stubbing=False, timeout=600):
    """re-run one harness with concrete playback; returns list of {kind, desc, vals:[bytes...]}"""
    cmd = ["cargo", "kani", "--target-dir", target_dir, "--harness", harness_pretty, "--exact",
           "-Z", "concrete-playback", "--concrete-playback=print", "--output-format", "terse"]
    if stubbing:
        cmd += ["-Z", "stubbing"]
    rc, out, err, wall = sh(cmd, cwd=crate.root, timeout=timeout)
    cases = []
    for m in PLAY_RE.finditer(out):
        txt = m.group(2)
        km = re.search(r"/// Check for `([^`]*)`: \"(.*)\"\s*$", txt, re.M)
        kind, desc = (km.group(1), km.group(2)) if km else ("?", "?")
        vals = []
        for vm in re.finditer(r"^\s*vec!\[([0-9, ]*)\],?\s*$", txt, re.M):
            s = vm.group(1).strip()
            vals.append([int(x) for x in s.split(",") if x.strip()] if s else [])
        cases.append({"kind": kind, "desc": desc, "vals": vals})
    return cases, out[-3000:]


# ----------------------------------------------------------------------------------------------
REPLAY_MAIN = r'''
use std::panic;
fn parse(s: &str) -> Vec<Vec<u8>> {
    if s.is_empty() || s == "-" { return vec![]; }
    s.split(';').map(|v| if v.is_empty() { vec![] } else { v.split(',').map(|b| b.parse::<u8>().unwrap()).collect() }).collect()
}
fn pmsg(e: Box<dyn std::any::Any + Send>) -> String {
    if let Some(s) = e.downcast_ref::<&str>() { s.to_string() } else if let Some(s) = e.downcast_ref::<String>() { s.clone() } else { "<non-string panic>".to_string() }
}
fn main() {
    let a: Vec<String> = std::env::args().collect();
    let name = a[1].clone();
    if name == "spec-selftest" {
        match __CRATE__::rt::selftest::spec_selftest() {
            Ok(n) => println!("REPLAY selftest ok checks={}", n),
            Err(e) => println!("REPLAY selftest FAILED {}", e),
        }
        return;
    }
    panic::set_hook(Box::new(|_| {}));
    if a[2].starts_with("search:") {
        // falsification attempt for an "unreachable cover" verdict: random inputs, count hits of label a[3]
        let parts: Vec<&str> = a[2].split(':').collect();
        let seed: u64 = parts[1].parse().unwrap();
        let count: u64 = parts[2].parse().unwrap();
        let label = a[3].clone();
        let (mut hits, mut ran, mut panics) = (0u64, 0u64, 0u64);
        __CRATE__::rt::vany::native::set_rng(seed | 1);
        for _ in 0..count {
            __CRATE__::rt::vany::native::set_queue(vec![]);
            let r = panic::catch_unwind(|| { dispatch(&name) });
            let covers = __CRATE__::rt::vany::native::covers();
            match r { Ok(()) => { ran += 1; } Err(e) => { if !pmsg(e).contains("VERIF-ASSUME-VIOLATED") { panics += 1; } } }
            if covers.iter().any(|c| c == &label) { hits += 1; }
        }
        println!("REPLAY search label={} hits={} completed={} panics={} tried={}", label, hits, ran, panics, count);
        return;
    }
    let q = parse(&a[2]);
    __CRATE__::rt::vany::native::set_queue(q);
    let r = panic::catch_unwind(|| { dispatch(&name) });
    let covers = __CRATE__::rt::vany::native::covers();
    match r {
        Ok(()) => println!("REPLAY returned covers={:?}", covers),
        Err(e) => println!("REPLAY panicked covers={:?} msg={}", covers, pmsg(e).replace('\n', " ")),
    }
}
fn dispatch(name: &str) {
    match name {
__ARMS__
        _ => panic!("VERIF-NO-SUCH-HARNESS"),
    }
}
'''


def native_replay(root, units, cases, dep, lock, release_macro=False, extra_rt=(), timeout=900, selftest=False):
    """cases: list of (uid, hname, vals). Builds one replay crate (stable toolchain, real macro,
    no Kani) and runs every case in dev and release. returns {index: {'dev': str, 'release': str}}"""
    if os.path.exists(root):
        shutil.rmtree(os.path.join(root, "src"), ignore_errors=True)
    cr = Crate(root, "vreplay", units, dep, lock, release_macro=release_macro, extra_rt=extra_rt)
    cr.write(only_if_changed=False)
    arms = []
    for (uid, hname, _) in cases:
        arm = f'        "{uid}::{hname}" => vreplay::{uid}::{hname}(),'
        if arm not in arms:
            arms.append(arm)
    main = REPLAY_MAIN.replace("__CRATE__", "vreplay").replace("__ARMS__", "\n".join(arms))
    os.makedirs(os.path.join(root, "src", "bin"), exist_ok=True)
    with open(os.path.join(root, "src", "bin", "replay.rs"), "w") as fh:
        fh.write(main)
    # Cargo.toml: add the bin
    with open(os.path.join(root, "Cargo.toml"), "a") as fh:
        fh.write('\n[[bin]]\nname = "replay"\npath = "src/bin/replay.rs"\n')
        if release_macro:
            fh.write("\n[profile.release.build-override]\noverflow-checks = false\ndebug-assertions = false\n")
    out = {}
    tdir = os.path.join(root, "target")
    built = {}
    for prof in ("dev", "release"):
        cmd = ["cargo", "build", "--bin", "replay", "--target-dir", tdir, "-j", str(NCPU)]
        if prof == "release":
            cmd.append("--release")
        rc, o, e, w = sh(cmd, cwd=root, timeout=timeout)
        built[prof] = (rc == 0, e[-3000:])
    if selftest:
        for prof in ("dev", "release"):
            if not built[prof][0]:
                out["selftest_" + prof] = "BUILD-FAILED " + built[prof][1][-1500:]
                continue
            exe = os.path.join(tdir, "debug" if prof == "dev" else "release", "replay")
            rc, o, e, w = sh([exe, "spec-selftest", "-"], cwd=root, timeout=120)
            m = re.search(r"^REPLAY .*$", o, re.M)
            out["selftest_" + prof] = m.group(0) if m else f"NO-OUTPUT rc={rc} {e[-300:]}"
    for i, (uid, hname, vals) in enumerate(cases):
        out[i] = {}
        if isinstance(vals, dict):  # {'search': label, 'seed': n, 'count': n}
            argv = [f"search:{vals.get('seed', 1)}:{vals.get('count', 20000)}", vals["search"]]
        else:
            argv = [";".join(",".join(str(b) for b in v) for v in vals) or "-"]
        for prof in ("dev", "release"):
            if not built[prof][0]:
                out[i][prof] = "BUILD-FAILED " + built[prof][1][-800:]
                continue
            exe = os.path.join(tdir, "debug" if prof == "dev" else "release", "replay")
            rc, o, e, w = sh([exe, f"{uid}::{hname}"] + argv, cwd=root, timeout=300)
            m = re.search(r"^REPLAY .*$", o, re.M)
            out[i][prof] = m.group(0) if m else f"NO-OUTPUT rc={rc} {e[-300:]}"
    return out
