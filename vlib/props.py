"""Per-property corpus + harness plans."""
from __future__ import annotations
import random
from .model import *
from .corpus import *
from . import harness as H
from .engine import Unit
from .run import Plan


def units_from(layouts, hfun, prefix="l", start=0, valid=True, role=""):
    us = []
    for i, L in enumerate(layouts):
        hs = hfun(L)
        us.append(Unit(f"{prefix}{start + i:05d}", L.decl(), hs, {"layout": L, "sig": L.sig(), "tag": L.tag, "valid": valid, "role": role}))
    return us


COMMON_ASSUME = [
    "Kani 0.68 MIR->GOTO translation, CBMC 6.11 and CaDiCaL are sound; rustc nightly-2026-08-21 front end",
    "arbitrary-int 1.3.0 as locked in /repo/Cargo.lock is the library the expansion links against (its real bodies are executed symbolically)",
    "reference register rt/spec.rs (bit-by-bit gather/scatter, validated natively on the repository's documented examples on every run)",
    "x86_64, 64-bit usize",
    "harness assumptions: value-range masks when building arbitrary-int values (so that every value of the type is covered), index < K (or >= K) for array harnesses",
]


# ------------------------------------------------------------------------------------------------
def c01_layouts(tier, seed):
    Ls = []
    if tier == "quick":
        for W in (8, 16):
            Ls += pack(W, contiguous_fields(W, all_ranges(W), access="r"), tag=f"all ranges on u{W}")
        for W in (32, 64, 128):
            Ls += pack(W, contiguous_fields(W, boundary_ranges(W), access="r"), tag=f"boundary ranges on u{W}")
        arb = QUICK_ARB
    else:
        for W in NATIVE_BASES:
            Ls += pack(W, contiguous_fields(W, all_ranges(W), access="r"), per=8, tag=f"all ranges on u{W}")
        arb = ALL_ARB
    for N in arb:
        Ls += pack(N, contiguous_fields(N, arb_base_ranges(N), access="r"), tag=f"boundary ranges on arbitrary base u{N}")
    if tier != "quick":
        rnd = random.Random(seed)
        for N in rnd.sample(ALL_ARB, 12):
            Ls += pack(N, contiguous_fields(N, all_ranges(N) if N <= 24 else rnd.sample(all_ranges(N), 200), access="r"), per=8, tag=f"ranges on arbitrary base u{N}")
    return Ls


def surface_layouts(access="rw", enums=True):
    """declaration surface that is legal today but unusual: field names / array lengths reaching the
    attribute macro through macro_rules! fragments, struct-level doc comments that mention trait names,
    `r, w` written as two access specifiers, one list spread over a bits(..) and a bit(..) attribute"""
    Ls = []
    acc2 = "r,w" if access == "rw" else ""
    for W in (32, 24, 128, 8):
        top = W - 1
        fs = [Field("lo", T_uint(3), [(0, 3)], None, access), Field("flag", T_bool(), [(top, 1)], None, access),
              Field("arr", T_uint(2), [(3, 2)], (2, 2, False), access)]
        L = Layout(W, fs, default=("lit", 1 << (W - 2), "hex"), tag=f"declaration stamped out by macro_rules! with field names as $f:ident and the array length as $n:expr on u{W}")
        L.macro_idents = True
        Ls.append(L)
        # (`debug` cannot be combined with array fields on the unmodified macro, so a second one without arrays)
        L = Layout(W, [Field("lo", T_uint(3), [(0, 3)], None, access), Field("flag", T_bool(), [(top, 1)], None, access)], default=("lit", 1 << (W - 2), "hex"), debug=True, tag=f"debug declaration stamped out by macro_rules! with field names as $f:ident on u{W}")
        L.macro_idents = True
        Ls.append(L)
        fs = [Field("lo", T_int(8) if W >= 16 else T_uint(3), [(0, 8 if W >= 16 else 3)], None, access), Field("hi", T_uint(2), [(top - 1, 2)], None, access)]
        L = Layout(W, fs, default=("lit", 3, "dec"), debug=True, tag=f"struct doc comment mentioning Debug, Copy, Clone and Default on u{W}")
        L.struct_doc = "DBG register: Debug MCU configuration; holds a Copy or Clone of the Default state (PartialEq, Eq)"
        Ls.append(L)
        fs = [Field("m", T_uint(4), [(top - 4, 4)], None, access, access_form=acc2), Field("n", T_bool(), [(0, 1)], None, access, access_form="w,r" if access == "rw" else ""),
              Field("a", T_uint(1), [(1, 1)], (3, 1, False), access, access_form=acc2, form="bits1")]
        Ls.append(Layout(W, fs, tag=f"access written as two specifiers (r, w / w, r) on u{W}"))
        if W >= 16:
            fs = [Field("v", T_uint(5), [(4, 3), (0, 1), (9, 1)], None, access, list_split=1, list_split_other_kw=True),
                  Field("w", T_uint(4), [(12, 1), (14, 1), (10, 2)], None, access, list_split=2, list_split_other_kw=True, form="bit_list")]
            Ls.append(Layout(W, fs, tag=f"one list spread over a bits([..]) and a bit([..]) attribute (both orders) on u{W}"))
    # another, very different, bitfield and bitenum declared just before in the same module: nothing of theirs
    # (base width, default, debug, field names, access) may carry over into the next invocation of the macro
    for (W, ob, od) in ((32, "u8", "0xff"), (24, "u128", "0x1"), (128, "u7", "0x55"), (8, "u64", "0xffff_ffff_ffff_ffff")):
        other = (f"#[bitfield({ob}, default = {od}, debug)]\npub struct Other {{\n    #[bits(0..=6, rw)]\n    lo: u7,\n    #[bit(3, r)]\n    flag: bool,\n}}\n"
                 "#[bitenum(u3, exhaustive = false)]\npub enum OtherE {\n    A = 1,\n    B = 6,\n}")
        fs = [Field("lo", T_uint(3), [(1, 3)], None, access), Field("flag", T_bool(), [(W - 1, 1)], None, access), Field("w0", T_uint(2), [(4, 2)], None, access)]
        Ls.append(Layout(W, fs, aux=[other], tag=f"u{W} bitfield declared right after a {ob} bitfield with default and debug and a bitenum in the same module"))
    if enums:
        e = full_enum("E2", 2)
        o = sparse_enum("E3N", 3, [0, 1, 5, 7], None)
        fs = [Field("mode", FType("enum", 2, e), [(0, 2)], (4, 2, False), access, access_form=acc2), Field("opt", FType("optenum", 3, o), [(8, 3)], (3, 4, True), access), Field("one", FType("enum", 2, e), [(30, 2)], None, access, access_form="w,r" if access == "rw" else "")]
        L = Layout(32, fs, aux=[e, o], default=("lit", 0, "dec"), tag="enum-typed arrays whose length is a macro_rules! $n:expr fragment, access as `r, w`")
        L.macro_idents = True
        Ls.append(L)
    return Ls


def c01_context_layouts(tier, access="r"):
    """the same field alone in its struct, as the highest declared field below reserved bits, and with
    another field declared above / below it: a getter must not depend on what else is declared"""
    Ls = []
    bases = NATIVE_BASES + (QUICK_ARB if tier == "quick" else ALL_ARB[::3])
    for W in bases:
        if W < 4:
            continue
        spots = sorted(set([0, 1, W // 2, W - 2]))
        for lo in spots:
            for ty in (T_bool(), T_uint(1)):
                Ls.append(Layout(W, [Field("only", ty, [(lo, 1)], None, access)], tag=f"single {ty.decl_ty()} at bit {lo} as the only field of u{W}"))
            Ls.append(Layout(W, [Field("low", T_uint(1), [(0, 1)], None, access), Field("flag", T_bool(), [(max(lo, 1), 1)], None, access)], tag=f"bool at bit {max(lo, 1)} as the highest declared field of u{W}"))
            if lo + 1 < W - 1:
                Ls.append(Layout(W, [Field("flag", T_bool(), [(lo, 1)], None, access), Field("above", T_bool(), [(W - 1, 1)], None, access)], tag=f"bool at bit {lo} with another field declared above it on u{W}"))
        for w in (8, 16, 32, 64):
            if w + 2 <= W:
                for ty in (T_uint(w), T_int(w)):
                    Ls.append(Layout(W, [Field("only", ty, [(1, w)], None, access)], tag=f"single {ty.decl_ty()} at bit 1 as the only field of u{W}"))
        if W >= 8:
            Ls.append(Layout(W, [Field("only", T_uint(3), [(2, 3)], None, access)], tag=f"single u3 as the only field of u{W}"))
    # pairs of fields whose (lowest bit, width) digit strings concatenate to the same text: (2,13) / (21,3), (4,18) / (41,8), (1,12) / (11,2) ...
    for (W, pairs) in ((32, [((2, 13), (21, 3)), ((1, 12), (11, 2))]), (64, [((4, 18), (41, 8)), ((3, 16), (31, 6)), ((1, 11), (11, 1))]), (128, [((1, 100), (110, 0 + 10))] if False else [((1, 27), (12, 7)), ((10, 1), (1, 1))]), (24, [((1, 10), (11, 0 + 1))] if False else [((2, 10), (21, 0 + 2))] if False else [((1, 12), (11, 2))])):
        for (a_, b_) in pairs:
            for order in (0, 1):
                fa = Field("x", ty_for_width(a_[1], "u1"), [a_], None, access)
                fb = Field("y", ty_for_width(b_[1], "u1"), [b_], None, access)
                Ls.append(Layout(W, [fa, fb] if order == 0 else [fb, fa], tag=f"fields at {a_} and {b_} (same digit string when lowest bit and width are concatenated) on u{W}"))
    # two (or three) fields that share their lowest bit, the wider one declared first and last
    for (W, lo, ws) in ((32, 0, (16, 8)), (64, 8, (32, 8, 16)), (128, 0, (64, 32)), (128, 64, (64, 8)), (24, 4, (16, 8)), (100, 1, (64, 16, 3))):
        for order in (0, 1):
            seq = list(ws) if order == 0 else list(reversed(ws))
            fs = []
            for k, w_ in enumerate(seq):
                fs.append(Field(f"v{k}", (T_uint(w_) if k % 2 == 0 else T_int(w_)) if is_native(w_) else T_uint(w_), [(lo, w_)], None, access))
            Ls.append(Layout(W, fs, tag=f"fields of widths {seq} all starting at bit {lo} of u{W}"))
    # bit positions written with a leading zero are still decimal
    for W in (16, 32, 128, 24):
        Ls.append(Layout(W, [Field("a", T_uint(2), [(10, 2)], None, access, zero_pad=True), Field("b", T_bool(), [(W - 1 if W - 1 < 78 else 77, 1)], None, access, zero_pad=True),
                             Field("c", T_uint(3), [(0, 1), (12, 2)], None, access, zero_pad=True), Field("d", T_uint(2), [(8, 2)], (2, 10 if W >= 24 else 3, True), access, zero_pad=True)], tag=f"zero-padded bit positions (010 is ten) on u{W}"))
    # a struct with one field per bit, raw identifiers, documented fields, non-pub struct
    Ls.append(Layout(32, [Field(f"b{i}", T_bool() if i % 3 else T_uint(1), [(i, 1)], None, access) for i in range(32)], tag="32 one-bit fields on u32"))
    L = Layout(64, [Field("type", T_uint(5), [(3, 5)], None, access, raw_ident=True), Field("match", T_bool(), [(63, 1)], None, access, raw_ident=True),
                    Field("loop", T_int(8), [(20, 8)], None, access, raw_ident=True), Field("plain", T_uint(7), [(40, 7)], None, access, doc="a documented field")], tag="raw identifiers (r#type, r#match, r#loop) and a documented field on u64")
    L.vis = ""
    Ls.append(L)
    L = Layout(24, [Field("fn", T_uint(3), [(21, 3)], None, access, raw_ident=True, doc="top field"), Field("a", T_uint(2), [(0, 2)], (3, 4, True), access, doc="documented array")], tag="raw identifier and documented array on u24")
    L.vis, L.derives = "pub(crate)", "PartialEq, Eq, Debug"
    Ls.append(L)
    return Ls


def plan_c01(tier, seed):
    Ls = c01_layouts(tier, seed) + c01_context_layouts(tier) + surface_layouts()
    us = units_from(Ls, lambda L: [H.h_get(L, f, "C01") for f in L.fields])
    # negative controls on three real layouts (first, middle, last)
    for k in (0, len(us) // 2, len(us) - 1):
        L = us[k].meta["layout"]
        us[k].harnesses.append(H.ctl_get(L, L.fields[0], "C01"))
    return Plan(us, title="getter == declared bits", chunk=260 if tier == "quick" else 700,
                bounds={"raw values": "all 2^N per layout (symbolic)", "layouts": "this run's corpus: " + ("all lo..=hi on u8,u16; boundary placements on u32,u64,u128; 14 arbitrary-int bases" if tier == "quick" else "all lo..=hi on u8..u128; all 122 arbitrary-int bases (boundary placements) + 12 random ones swept"),
                        "loops": "none in the code under test; reference loops have compile-time bounds <= 128 and are fully unwound (unwinding assertions on)"},
                assumptions=COMMON_ASSUME, exhaustive=False)


PLANS = {"C01": plan_c01}


def field_harnesses(L, f, prop, oob=True, get=True, sett=True, twice=False):
    hs = []
    if get and f.readable:
        hs.append(H.h_get(L, f, prop))
    if sett and f.writable:
        hs.append(H.h_set(L, f, prop))
        if twice:
            hs.append(H.h_set2(L, f, prop))
    if oob and f.array:
        if f.readable:
            hs.append(H.h_oob(L, f, prop, "get"))
        if f.writable:
            hs.append(H.h_oob(L, f, prop, "with"))
            hs.append(H.h_oob(L, f, prop, "set"))
    return hs


def add_controls(us, prop, kinds=("get", "set", "oob")):
    """negative controls on real layouts of this run (first / middle / last that qualify)"""
    n = 0
    picks = [us[0], us[len(us) // 2], us[-1]]
    for k, u in enumerate(picks):
        L = u.meta["layout"]
        kind = kinds[k % len(kinds)]
        done = False
        for f in L.fields:
            if kind == "get" and f.readable:
                u.harnesses.append(H.ctl_get(L, f, prop)); done = True; break
            if kind == "set" and f.writable:
                u.harnesses.append(H.ctl_set(L, f, prop)); done = True; break
            if kind == "oob" and f.array and f.readable:
                u.harnesses.append(H.ctl_oob(L, f, prop, "get")); done = True; break
        if not done:
            for f in L.fields:
                if f.readable:
                    u.harnesses.append(H.ctl_get(L, f, prop)); done = True; break
                if f.writable:
                    u.harnesses.append(H.ctl_set(L, f, prop)); done = True; break
        n += done
    return n


def alt_access(fields, choices=("rw", "w", "rw")):
    for i, f in enumerate(fields):
        f.access = choices[i % len(choices)]
    return fields


# ------------------------------------------------------------------------------------------------
def c02_layouts(tier, seed):
    Ls = []
    if tier == "quick":
        Ls += pack(8, alt_access(contiguous_fields(8, all_ranges(8))), tag="all ranges on u8")
        rnd = random.Random(1)
        r16 = all_ranges(16)
        Ls += pack(16, alt_access(contiguous_fields(16, [r for r in r16 if r[0] in (0, 1, 7, 8) or r[0] + r[1] == 16 or r[1] in (1, 8)])), tag="ranges on u16")
        for W in (32, 64, 128):
            Ls += pack(W, alt_access(contiguous_fields(W, boundary_ranges(W))), tag=f"boundary ranges on u{W}")
        arb = QUICK_ARB
    else:
        for W in NATIVE_BASES:
            Ls += pack(W, alt_access(contiguous_fields(W, all_ranges(W))), per=8, tag=f"all ranges on u{W}")
        arb = ALL_ARB
    for N in arb:
        Ls += pack(N, alt_access(contiguous_fields(N, arb_base_ranges(N))), tag=f"boundary ranges on arbitrary base u{N}")
    return Ls


def c02_extra_layouts(tier):
    """every writable field kind, not only contiguous ones: lists (signed and unsigned), so that the
    with_/set_ agreement and receiver-unchanged clauses are decided for those bodies too"""
    Ls = []
    for W in (16, 32, 64, 128, 24, 100):
        Ls.append(Layout(W, [Field("f", T_int(8), [(8, 4), (0, 4)], None, "rw")], tag=f"i8 list high,low not touching the top on u{W}"))
        Ls.append(Layout(W, [Field("f", T_uint(8), [(W - 9, 4), (1, 4)], None, "w")], tag=f"write-only u8 list on u{W}"))
        Ls.append(Layout(W, [Field("f", T_uint(5), [(0, 2), (W - 3, 3)], None, "rw")], tag=f"u5 list touching the top on u{W}"))
        if W >= 34:
            Ls.append(Layout(W, [Field("f", T_int(16), [(W - 17, 8), (3, 8)], None, "rw")], tag=f"i16 list on u{W}"))
            Ls.append(Layout(W, [Field("f", T_int(32), [(0, 31), (W - 2, 1)], None, "rw")], tag=f"i32 with its sign bit stored apart on u{W}"))
        Ls.append(Layout(W, [Field("a", T_int(8), [(4, 4), (0, 4)], (W // 8 if W % 8 == 0 else W // 8, 8, True), "rw")], tag=f"array of i8 lists on u{W}"))
        # entries that directly continue the previous one (upwards and downwards), followed by a further entry
        Ls.append(Layout(W, [Field("f", T_uint(10), [(0, 3), (3, 3), (W - 4, 4)], None, "rw")], tag=f"list with adjacent entries then a far one on u{W}"))
        Ls.append(Layout(W, [Field("f", T_uint(10), [(W - 4, 4), (3, 3), (6, 3)], None, "rw")], tag=f"list far entry first then adjacent entries on u{W}"))
        Ls.append(Layout(W, [Field("f", T_uint(9), [(6, 3), (3, 3), (0, 3)], None, "rw")], tag=f"list with descending adjacent entries on u{W}"))
        Ls.append(Layout(W, [Field("f", T_uint(6), [(2, 1), (3, 1), (4, 1), (8, 3)], None, "rw")], tag=f"single bits continuing each other then a range on u{W}"))
        for (w_, s_, k_) in ((8, 4, 3), (16, 20 if W >= 40 else 1, 9), (8, W - 9, 5)):
            if s_ + w_ <= W and s_ >= 0:
                for ty in (T_uint(w_), T_int(w_)):
                    Ls.append(Layout(W, [Field("f", ty, [(s_ + k_, w_ - k_), (s_, k_)], None, "rw")], tag=f"{ty.decl_ty()} rotated by {k_} inside the window starting at bit {s_} of u{W}"))
        Ls.append(Layout(W, [Field("a", T_uint(4), [(0, 4)], (2, 8, True), "rw", attr_split="access_last"), Field("b", T_bool(), [(5, 1)], None, "rw", attr_split="access_first"), Field("c", T_int(8), [(W - 8, 8)], None, "w", attr_split="access_last")], tag=f"fields whose attribute arguments are split over two attributes on u{W}"))
        for (w_, lo_, s_) in ((8, 0, 12), (8, 8, 20), (8, 0, 9), (16, 0, 20), (16, 8, 17), (32, 0, 36), (8, 16, 15)):
            K_ = (W - lo_ - w_) // s_ + 1 if W - lo_ - w_ >= 0 else 0
            if K_ >= 2:
                for ty in (T_uint(w_), T_int(w_)):
                    Ls.append(Layout(W, [Field("a", ty, [(lo_, w_)], (min(K_, 6), s_, True), "rw")], tag=f"[{ty.decl_ty()}; {min(K_, 6)}] from byte-aligned bit {lo_} with stride {s_} on u{W}"))
        if not is_native(W):
            # arbitrary-int base: a list whose NON-last item ends on the top bit
            Ls.append(Layout(W, [Field("f", T_uint(W), [(W - 8, 8), (8, W - 16), (0, 8)], None, "rw")], tag=f"full-width byte-swapped-ends list on u{W}"))
            Ls.append(Layout(W, [Field("f", T_uint(5), [(W - 2, 2), (1, 3)], None, "rw")], tag=f"list whose first item ends at the top bit of u{W}"))
    return Ls


def plan_c02(tier, seed):
    Ls = c02_layouts(tier, seed) + [L for k, L in enumerate(c01_context_layouts(tier, access="rw")) if k % 2 == 0]
    nplain = len(Ls)
    Ls = Ls + c02_extra_layouts(tier) + surface_layouts()
    us = units_from(Ls, lambda L: [H.h_set(L, f, "C02") for f in L.fields])
    # a second write to the same field must win completely: on the list/array extras and on a slice
    # of the plain corpus (every 5th layout, first field)
    for k, u in enumerate(us):
        L = u.meta["layout"]
        if k >= nplain:
            u.harnesses += [H.h_set2(L, f, "C02") for f in L.fields]
        elif k % 5 == 0:
            u.harnesses.append(H.h_set2(L, L.fields[0], "C02"))
    add_controls(us, "C02", kinds=("set", "set", "set"))
    return Plan(us, title="setter == reference scatter", chunk=200 if tier == "quick" else 600,
                bounds={"inputs": "all raw values x all field values per layout (symbolic)", "forms": "with_ and set_", "layouts": "this run's corpus (see harness_families / layouts_generated)"},
                assumptions=COMMON_ASSUME)


# ------------------------------------------------------------------------------------------------
E2 = lambda: full_enum("E2", 2)
E3N = lambda: sparse_enum("E3N", 3, [0, 1, 5, 7], None)
E1 = lambda: full_enum("E1", 1)


def c03_layouts(tier, seed):
    rnd = random.Random(seed * 7919 + 3)
    Ls = []

    def mk(W, shape, ty=None, access="rw", explicit=None, tag="", aux=None):
        lo, w, s, K = shape
        f = array_field(lo, w, s, K, ty, access, explicit)
        L = Layout(W, [f], tag=tag or f"array lo={lo} w={w} stride={s} K={K} on u{W}", aux=aux or [])
        return L

    sh8 = array_shapes(8, max_w=4, max_K=8)
    if tier == "quick":
        pick8 = [x for x in sh8 if (x[3] - 1) * x[2] + x[0] + x[1] == 8 or x[0] == 0]  # fill exactly or start at 0
        pick8 = pick8 if len(pick8) <= 70 else random.Random(5).sample(pick8, 70)
    else:
        pick8 = sh8
    for i, x in enumerate(pick8):
        tys = elem_type_variants(x[1])
        Ls.append(mk(8, x, tys[i % len(tys)], ["rw", "rw", "r", "w"][i % 4]))
    sh16 = array_shapes(16, max_w=8, max_K=16)
    pick16 = [x for x in sh16 if (x[3] - 1) * x[2] + x[0] + x[1] == 16]
    if tier == "quick":
        pick16 = random.Random(6).sample(pick16, 30)
    else:
        pick16 = pick16 + rnd.sample([x for x in sh16 if x not in pick16], 400)
    for i, x in enumerate(pick16):
        tys = elem_type_variants(x[1])
        Ls.append(mk(16, x, tys[i % len(tys)]))
    for W in (32, 64, 128):
        for i, x in enumerate(fill_shapes(W)):
            for ty in elem_type_variants(x[1]):
                Ls.append(mk(W, x, ty))
    bases = QUICK_ARB if tier == "quick" else ALL_ARB
    for N in bases:
        if N < 2:
            continue
        shapes = fill_shapes(N)
        if tier == "quick":
            shapes = shapes[:3]
        for x in shapes:
            for ty in elem_type_variants(x[1])[:1 if tier == "quick" else 2]:
                Ls.append(mk(N, x, ty))
    # enum-typed elements (exhaustive and Option) and explicit stride == width, legacy syntax
    for W in (8, 16, 32, 64, 128) + ((24, 65) if tier == "quick" else tuple(ALL_ARB[::7])):
        if W >= 8:
            e = E2()
            Ls.append(mk(W, (W - 8, 2, 2, 4), FType("enum", 2, e), aux=[e], tag=f"exhaustive 2-bit enum array ending at top of u{W}"))
            e = E3N()
            Ls.append(mk(W, (1, 3, 3, 2), FType("optenum", 3, e), aux=[e], tag=f"Option<enum> array on u{W}"))
            e = E1()
            Ls.append(mk(W, (0, 1, 2, 4), FType("enum", 1, e), aux=[e], tag=f"1-bit enum array with gaps on u{W}"))
            L = mk(W, (0, 4, 4, 2), T_uint(4), explicit=True, tag=f"explicit stride == width, legacy stride syntax on u{W}")
            L.legacy = True
            Ls.append(L)
    # arrays whose elements are range lists (C04 owns the gather/scatter order; here: element
    # addressing and bounds checks), first listed range NOT at bit 0, in both list orders
    for (W, ty, rs, arr) in [(16, T_uint(2), [(1, 1), (3, 1)], (3, 4, True)), (32, T_uint(4), [(8, 2), (12, 2)], (2, 16, True)),
                              (32, T_uint(4), [(1, 1), (3, 1), (5, 1), (7, 1)], (4, 8, True)), (64, T_int(8), [(36, 4), (4, 4)], (4, 8, True)),
                              (128, T_uint(12), [(70, 6), (3, 6)], (5, 12, True)), (24, T_uint(3), [(2, 1), (10, 1), (18, 1)], (6, 1, True)),
                              (8, T_uint(2), [(1, 1), (5, 1)], (3, 1, True)), (65, T_uint(5), [(30, 3), (1, 2)], (4, 8, True))]:
        Ls.append(Layout(W, [Field("a", ty, rs, arr, "rw")], tag=f"array of range lists, first range at bit {rs[0][0]}, on u{W}"))
        Ls.append(Layout(W, [Field("a", ty, list(reversed(rs)), arr, "rw")], tag=f"array of range lists (reversed), first range at bit {rs[-1][0]}, on u{W}"))
    # dense arrays of native-width elements that do NOT start on a multiple of their width
    for W in (32, 64, 128, 24, 65, 100):
        for w in (8, 16, 32, 64):
            for lo in (4, 3, w // 2 + 1):
                K = min((W - lo) // w, 4)
                if K >= 2:
                    for ty in (T_uint(w), T_int(w)):
                        Ls.append(mk(W, (lo, w, w, K), ty, tag=f"dense [{ty.decl_ty()}; {K}] starting at unaligned bit {lo} of u{W}"))
    # two arrays in one struct: explicit stride first, then one relying on the default stride (and vice versa)
    for W in (32, 64, 24, 128):
        a = Field("a", T_uint(2), [(0, 2)], (3, 5, True), "rw")
        b = Field("b", T_uint(4), [(16, 4)], (2, 4, False), "rw")
        c = Field("c", T_bool(), [(W - 3, 1)], (3, 1, False), "rw")
        import copy
        Ls.append(Layout(W, [copy.deepcopy(a), copy.deepcopy(b), copy.deepcopy(c)], tag=f"strided array, then dense arrays without stride on u{W}"))
        Ls.append(Layout(W, [copy.deepcopy(c), copy.deepcopy(b), copy.deepcopy(a)], tag=f"dense arrays first, strided array last on u{W}"))
    # element counts around 8 / 16 / 32 / 64
    for (W, w, K) in ((16, 1, 9), (32, 1, 17), (64, 1, 33), (64, 1, 64), (128, 1, 65), (128, 2, 64), (128, 1, 128), (64, 3, 17), (32, 4, 8), (128, 7, 16), (100, 3, 33)):
        for ty in elem_type_variants(w)[:2]:
            Ls.append(mk(W, (W - K * w if W - K * w < 3 else 2, w, w, K), ty, tag=f"[{ty.decl_ty()}; {K}] on u{W} (count around a power of two)"))
    # fields named like locals / parameters a generated body might use (offset, index, value, temp, ...)
    for W in (64, 128, 48):
        fs = [Field("offset", T_int(8), [(0, 8)], (2, 8, False), "rw"), Field("index", T_uint(4), [(16, 4)], (2, 4, False), "rw"), Field("value", T_uint(4), [(24, 1), (26, 3)], (2, 4, True), "rw"),
              Field("temp", T_uint(4), [(32, 4)], None, "rw"), Field("field_value", T_bool(), [(36, 1)], (3, 1, False), "rw"), Field("effective_index", T_uint(2), [(40, 2)], (2, 3, True), "rw"), Field("result", T_uint(3), [(45, 3)], None, "rw")]
        Ls.append(Layout(W, fs, default=("lit", 0, "dec"), tag=f"fields named offset / index / value / temp / field_value / effective_index / result on u{W}"))
    # the arguments of one field spread over two attributes
    for split in ("access_last", "access_first"):
        for (W, shape, ty) in ((32, (0, 4, 8, 4), T_uint(4)), (64, (4, 8, 16, 3), T_int(8)), (24, (1, 1, 3, 5), T_bool())):
            L = mk(W, shape, ty, explicit=True, tag=f"array whose attribute arguments are split over two attributes ({split}) on u{W}")
            L.fields[0].attr_split = split
            Ls.append(L)
    # range-list arrays with stride 0: every element is the same bits
    for W in (16, 32, 24):
        Ls.append(Layout(W, [Field("v", T_uint(8), [(0, 4), (8, 4)], (3, 0, True), "rw")], tag=f"range-list array with stride 0 on u{W}"))
    # the same attribute written with its arguments in other orders
    for order in ("sra", "asr", "rsa", "ars", "sar"):
        for (W, shape, ty) in ((32, (0, 4, 8, 4), T_uint(4)), (16, (1, 1, 3, 5), T_bool()), (64, (4, 8, 16, 3), T_int(8)), (24, (2, 3, 5, 4), T_uint(3))):
            L = mk(W, shape, ty, explicit=True, tag=f"array with attribute arguments in order '{order}' on u{W}")
            L.fields[0].arg_order = order
            Ls.append(L)
        L = Layout(32, [Field("a", T_uint(2), [(1, 1), (9, 1)], (3, 2, True), "rw", arg_order=order)], tag=f"array of lists with attribute arguments in order '{order}'")
        Ls.append(L)
    if tier != "quick":
        for W in (32, 64, 128):
            sh = array_shapes(W, max_w=W // 2, max_K=16)
            for i, x in enumerate(rnd.sample(sh, 150)):
                tys = elem_type_variants(x[1])
                Ls.append(mk(W, x, tys[i % len(tys)]))
    return Ls


def plan_c03(tier, seed):
    Ls = c03_layouts(tier, seed) + [L for L in surface_layouts() if any(f.array for f in L.fields)]
    us = units_from(Ls, lambda L: sum([field_harnesses(L, f, "C03") for f in L.fields], []))
    add_controls(us, "C03", kinds=("oob", "get", "set"))
    return Plan(us, title="arrays: element i at lo+i*stride, bounds-checked", chunk=230 if tier == "quick" else 600,
                bounds={"inputs": "all raw values, all element values, all indices (in range: i<K; out of range: all 2^64-K others) per layout", "layouts": "array shapes of this run (exhaustive small shapes on u8, fill-exactly / K=2 / gap shapes elsewhere); K <= 16 except exact fills"},
                assumptions=COMMON_ASSUME + ["an out-of-range index must be stopped by a panic that does not depend on overflow checks (an `attempt to ... with overflow` failure alone counts as a violation, confirmed in the release replay)"])


# ------------------------------------------------------------------------------------------------
def c04_layouts(tier, seed):
    rnd = random.Random(seed * 104729 + 4)
    Ls = []
    bases = [8, 16, 32, 64, 128] + ([7, 24, 33, 100] if tier == "quick" else ALL_ARB[::5])
    for W in bases:
        for (tag, ty, rs) in documented_lists(W):
            if max(lo + n for lo, n in rs) <= W:
                Ls.append(Layout(W, [Field("f", ty, rs, None, "rw")], tag=f"{tag} on u{W}"))
    # random lists
    nrand = 110 if tier == "quick" else 1500
    srnd = random.Random(4242)  # the structured-random part is fixed; the seed adds more on top
    for k in range(nrand):
        r = srnd if k < nrand * 2 // 3 else rnd
        W = r.choice([8, 16, 32, 64, 128, 128, r.choice(ALL_ARB)])
        if W < 2:
            continue
        wmax = W
        w = r.choice([2, 3, 4, 5, 7, 8, 8, 9, 12, 16, 16, 24, 32, 32, 33, 63, 64, 64, 65, 100, 127, 128, r.randint(2, 128)])
        if w > wmax:
            w = r.randint(2, wmax)
        rs = random_list(r, W, w)
        ty = list_type_for(r, w)
        Ls.append(Layout(W, [Field("f", ty, rs, None, r.choice(["rw", "rw", "rw", "r", "w"]))], tag=f"random list w={w} on u{W}"))
    # arrays of lists: disjoint elements and interleaving elements
    arr = []
    arr.append((8, T_uint(2), [(0, 1), (4, 1)], (4, 1, True), "interleaving: element i = bits {i, 4+i}"))
    arr.append((8, T_uint(4), [(0, 1), (2, 1), (4, 1), (6, 1)], (2, 1, True), "interleaving even/odd bits (documented test shape)"))
    arr.append((16, T_uint(4), [(0, 2), (8, 2)], (4, 2, True), "interleaving halves"))
    arr.append((32, T_uint(8), [(0, 4), (16, 4)], (4, 4, True), "nibble pairs"))
    arr.append((32, T_int(8), [(4, 4), (0, 4)], (4, 8, True), "signed swapped nibbles per byte"))
    arr.append((64, T_uint(16), [(8, 8), (0, 8)], (4, 16, True), "byte swap per u16 lane"))
    arr.append((64, T_uint(12), [(0, 5), (8, 7)], (4, 16, True), "disjoint lanes with gaps"))
    arr.append((128, T_uint(32), [(16, 16), (0, 16)], (4, 32, True), "u128 lanes, swapped halves"))
    arr.append((128, T_uint(64), [(32, 32), (0, 32)], (2, 64, True), "u128: 64-bit elements"))
    arr.append((128, T_int(64), [(0, 32), (32, 32)], (2, 64, True), "u128: signed 64-bit elements"))
    arr.append((24, T_uint(3), [(0, 1), (8, 1), (16, 1)], (8, 1, True), "arbitrary base: bit planes"))
    arr.append((100, T_uint(10), [(5, 5), (0, 5)], (10, 10, True), "arbitrary base u100: ten lanes, fills exactly"))
    arr.append((63, T_uint(7), [(0, 3), (4, 4)], (7, 9, True), "arbitrary base u63: gaps, last ends at top"))
    for (W, ty, rs, a, tag) in arr:
        Ls.append(Layout(W, [Field("a", ty, rs, a, "rw")], tag=f"array of lists: {tag}"))
        Ls.append(Layout(W, [Field("a", ty, list(reversed(rs)), a, "rw")], tag=f"array of lists (reversed order): {tag}"))
    nr = 25 if tier == "quick" else 300
    for k in range(nr):
        r = srnd if k < nr * 2 // 3 else rnd
        W = r.choice([16, 32, 64, 128, r.choice([n for n in ALL_ARB if n >= 12])])
        K = r.randint(2, 6)
        span = W // K
        if span < 2:
            continue
        w = r.randint(2, span)
        rs = random_list(r, span, w, parts=r.randint(2, min(4, w)))
        off = r.randint(0, W - span * K)
        rs = [(lo + off, n) for (lo, n) in rs]
        Ls.append(Layout(W, [Field("a", list_type_for(r, w), rs, (K, span, True), "rw")], tag=f"random array of lists K={K} stride={span} on u{W}"))
    return Ls


def c04_straddle_layouts():
    """list fields narrower than the base with a piece that straddles bit 8/16/32/64 of the base
    (the storage width of the field's own type), and pieces ending exactly on the top bit"""
    Ls = []
    for (W, w, S) in ((32, 12, 16), (64, 12, 16), (64, 20, 32), (128, 20, 32), (128, 40, 64), (32, 5, 8), (128, 100, 64), (24, 12, 16), (100, 40, 64), (65, 20, 32)):
        a = min(8, w - 2)
        lo = S - a // 2
        if lo + a > W:
            continue
        rest = w - a
        if rest > lo and lo + a + rest > W:
            continue
        Ls.append(Layout(W, [Field("f", T_uint(w), [(lo, a), (0, rest)] if rest <= lo else [(lo, a), (lo + a, rest)], None, "rw")], tag=f"u{w} list with a piece straddling bit {S} of u{W} (first)"))
        if rest <= lo:
            Ls.append(Layout(W, [Field("f", T_uint(w), [(0, rest), (lo, a)], None, "rw")], tag=f"u{w} list with a piece straddling bit {S} of u{W} (last)"))
    for W in (7, 14, 24, 48, 100, 127, 16, 64):
        if W >= 12:
            Ls.append(Layout(W, [Field("f", T_uint(W if W != 16 and W != 64 else W), [(W - 4, 4), (4, W - 8), (0, 4)], None, "rw")], tag=f"full-width list, first piece ends on the top bit of u{W}"))
        Ls.append(Layout(W, [Field("f", T_uint(3), [(W - 2, 2), (0, 1)], None, "rw")], tag=f"u3 list whose first piece ends on the top bit of u{W}"))
        Ls.append(Layout(W, [Field("f", T_uint(3), [(0, 1), (W - 2, 2)], None, "rw")], tag=f"u3 list whose last piece ends on the top bit of u{W}"))
    return Ls


def c04_permutation_layouts(tier):
    """fields made of equal chunks in permuted order (bytes of a u32/u64/u128, nibbles of a u16)"""
    import itertools
    Ls = []
    perms4 = list(itertools.permutations(range(4)))
    pick = perms4 if tier != "quick" else [p for p in perms4 if p[0] == 3 and p[3] == 0] + [(0, 3, 2, 1), (1, 0, 3, 2), (2, 3, 0, 1), (3, 0, 1, 2), (0, 2, 1, 3)]
    for p_ in pick:
        for (W, ty, chunk, base_lo) in ((32, T_uint(32), 8, 0), (64, T_uint(32), 8, 16), (16, T_uint(16), 4, 0), (128, T_uint(128), 32, 0), (64, T_int(32), 8, 32)):
            if tier == "quick" and (W, chunk) not in ((32, 8), (64, 8)) and p_ not in pick[:3]:
                continue
            rs = [(base_lo + k * chunk, chunk) for k in p_]
            Ls.append(Layout(W, [Field("f", ty, rs, None, "rw")], tag=f"{chunk}-bit chunks in order {p_} as {ty.decl_ty()} on u{W}"))
    # 8 bytes of a u64: a few permutations with the outer bytes in swap position
    for mid in ((6, 5, 4, 3, 2, 1), (1, 2, 3, 4, 5, 6), (6, 4, 5, 2, 3, 1), (5, 6, 3, 4, 1, 2)):
        p_ = (7,) + mid + (0,)
        Ls.append(Layout(64, [Field("f", T_uint(64), [(k * 8, 8) for k in p_], None, "rw")], tag=f"bytes of a u64 in order {p_}"))
        Ls.append(Layout(128, [Field("a", T_uint(64), [(k * 8, 8) for k in p_], (2, 64, True), "rw")], tag=f"array of u64 with bytes in order {p_} on u128"))
    return Ls


def plan_c04(tier, seed):
    Ls = c04_layouts(tier, seed) + c04_straddle_layouts() + c04_permutation_layouts(tier) + bit_keyword_list_layouts() + [L for L in surface_layouts(enums=False) if any(len(f.ranges) > 1 for f in L.fields)]
    # the second-write harness on every structured layout and on every other random one (quick)
    def hs(L, k=[0]):
        k[0] += 1
        tw = (tier != "quick") or (not L.tag.startswith("random")) or (k[0] % 2 == 0)
        return sum([field_harnesses(L, f, "C04", twice=tw) for f in L.fields], [])
    us = units_from(Ls, hs)
    add_controls(us, "C04", kinds=("get", "set", "get"))
    return Plan(us, title="non-contiguous gather/scatter", chunk=220 if tier == "quick" else 600,
                bounds={"inputs": "all raw values x all field values x all indices per layout", "lists": "2..8 pairwise-disjoint items, any order; arrays of lists with K <= 10", "layouts": "documented shapes on every base where they fit + seeded random lists + arrays of lists"},
                assumptions=COMMON_ASSUME + ["lists naming the same bit twice are outside the guarantee and not generated here"])


# ------------------------------------------------------------------------------------------------
def c05_layouts(tier, seed):
    rnd = random.Random(seed * 31337 + 5)
    Ls = []
    bases = [8, 16, 32, 64, 128] + ([9, 12, 24, 33, 48, 65, 100, 127] if tier == "quick" else ALL_ARB)
    for N in (8, 16, 32, 64, 128):
        for W in bases:
            if W < N:
                continue
            los = sorted(set([0, W - N, (W - N) // 2, 1 if W - N >= 1 else 0, 3 if W - N >= 3 else 0]))
            if tier != "quick" and W in NATIVE_BASES:
                los = list(range(0, W - N + 1))
            fs = [Field("f", T_int(N), [(lo, N)], None, "rw") for lo in los]
            Ls += pack(W, fs, per=4, tag=f"i{N} plain on u{W}")
            if W >= 2 * N:
                K = W // N
                Ls.append(Layout(W, [Field("a", T_int(N), [(0, N)], (K, N, False), "rw")], tag=f"i{N} array default stride K={K} on u{W}"))
                Ls.append(Layout(W, [Field("a", T_int(N), [(W - 2 * N, N)], (2, N, True), "rw")], tag=f"i{N} array K=2 at top on u{W}"))
            if W >= 2 * N + 2:
                s = N + 1
                K = (W - N) // s + 1
                Ls.append(Layout(W, [Field("a", T_int(N), [(W - ((K - 1) * s + N), N)], (K, s, True), "rw")], tag=f"i{N} array stride {s} (gaps) on u{W}"))
            if W >= 2 * N + 3:
                Ls.append(Layout(W, [Field("a", T_int(N), [(3, N)], (2, N, False), "rw")], tag=f"i{N} dense array starting at bit 3 on u{W}"))
            if W >= N + 2:
                h = N // 2
                Ls.append(Layout(W, [Field("f", T_int(N), [(0, h), (W - h, h)], None, "rw")], tag=f"i{N} two-range list low,high on u{W}"))
                Ls.append(Layout(W, [Field("f", T_int(N), [(W - h, h), (1, h)], None, "rw")], tag=f"i{N} two-range list high,low on u{W}"))
                Ls.append(Layout(W, [Field("f", T_int(N), [(1, 1), (W - N + 1, N - 1)], None, "rw")], tag=f"i{N} list with 1-bit first item on u{W}"))
            if W >= 2 * N + 2:
                Ls.append(Layout(W, [Field("a", T_int(N), [(N // 2, N // 2), (0, N // 2)], (2, N + 1, True), "rw")], tag=f"i{N} array of lists on u{W}"))
    # write-only signed fields (observed through raw_value only), not at the top of the storage
    for N in (8, 16, 32, 64):
        for W in [w_ for w_ in (16, 32, 64, 128, 24, 100) if w_ >= N + 9]:
            Ls.append(Layout(W, [Field("s", T_int(N), [(8, N)], None, "w"), Field("a", T_int(N), [(0, N)], (2, W // 2, True), "w") if W // 2 >= N else Field("z", T_bool(), [(0, 1)], None, "w")], tag=f"write-only i{N} fields on u{W}"))
    # structs mixing unsigned and signed fields of the same width, in both declaration orders, the signed
    # one below the top of the storage (generator state carried from one field to the next)
    for N in (8, 16, 32, 64):
        for W in (bases if tier != "quick" else [8, 16, 32, 64, 128, 24, 65, 100]):
            if W < 2 * N + 1:
                continue
            u_ = Field("u", T_uint(N), [(W - N, N)], None, "rw")
            s_ = Field("s", T_int(N), [(1, N)], None, "rw")
            import copy
            Ls.append(Layout(W, [copy.deepcopy(u_), copy.deepcopy(s_)], tag=f"u{N} declared before i{N} on u{W}"))
            Ls.append(Layout(W, [copy.deepcopy(s_), copy.deepcopy(u_)], tag=f"i{N} declared before u{N} on u{W}"))
            if W >= 4 * N:
                Ls.append(Layout(W, [Field("ua", T_uint(N), [(2 * N, N)], (2, N, False), "rw"), Field("sa", T_int(N), [(0, N)], (2, N, False), "rw")], tag=f"[u{N};2] declared before [i{N};2] on u{W}"))
    return Ls


def h_signed_extra(L, f):
    if f.ty.kind != "int":
        return None
    """C05: negative arguments must not disturb any bit outside the field (explicit witness that
    negative values are reachable and covered)"""
    b = H.raw_sym(L)
    b.append(f"let x = {L.name}::new_with_raw_value(r);")
    il, i, sh = H.idx_lines(f)
    b += il
    b.append(f"let v: i{f.ty.width} = vany();")
    b.append("vassume(v < 0);")
    b.append(f"let y = {H.call_with(f, 'x', i, 'v')};")
    b.append(f"let m: u128 = spec::mask({H.rng(f.ranges)}, {sh});")
    b.append(f'assert!(({H.raw_of(L, "y")} & !m) == (r128 & !m), "VERIF negative value leaked outside the field");')
    b.append(f"let g: i{f.ty.width} = {H.call_get(f, 'y', i)};")
    b.append('assert!(g == v, "VERIF negative value does not read back");')
    b.append('vcover!(v == -1, "VERIF-REACH-minus-one");')
    b.append("vend!();")
    from .engine import Harness
    return Harness(f"neg_{f.name}", "\n".join(b), "pass", "signed_negative", "C05", f.name, H.funcs_for(L, f, ["with_", ""]), reach=("VERIF-REACH-minus-one",))


def plan_c05(tier, seed):
    Ls = c05_layouts(tier, seed)
    us = units_from(Ls, lambda L: [h for h in sum([[H.h_get(L, f, "C05") if f.readable else None, H.h_set(L, f, "C05"), h_signed_extra(L, f) if f.readable else None] + ([H.h_set2(L, f, "C05")] if (len(f.ranges) > 1 or f.array) else []) for f in L.fields], []) if h is not None])
    add_controls(us, "C05", kinds=("get", "set", "set"))
    return Plan(us, title="signed fields", chunk=220 if tier == "quick" else 600,
                bounds={"inputs": "all raw values x all iN values (negative included) x all indices", "layouts": "N in {8,16,32,64,128} x bases >= N x {plain (several lo), array default/explicit stride, two-range lists both orders, array of lists}"},
                assumptions=COMMON_ASSUME)


PLANS.update({"C02": plan_c02, "C03": plan_c03, "C04": plan_c04, "C05": plan_c05})


# ------------------------------------------------------------------------------------------------
# C06
def default_patterns(N):
    top = 1 << (N - 1)
    alt = int("10" * 64, 2) & mask(N)
    return [mask(N), alt, 1, top]


def c06_layouts(tier, seed):
    Ls = []
    bases = NATIVE_BASES + (QUICK_ARB if tier == "quick" else ALL_ARB)
    for N in bases:
        pats = default_patterns(N)
        lowf = Field("f0", ty_for_width(max(1, N // 2)), [(0, max(1, N // 2))], None, "rw")
        forms = [
            (None, False, [lowf], "no default, partial cover"),
            (("lit", pats[0], "hex"), False, [lowf], "hex literal, all ones incl. bits no field covers"),
            (("const", pats[1]), False, [], "named constant, struct without fields"),
            (("lit", pats[3], "dec"), True, [lowf], "decimal literal top bit only, legacy `:` syntax"),
        ]
        ovl = [Field("all", T_uint(N), [(0, N)], None, "rw"), Field("low", T_bool(), [(0, 1)], None, "rw")]
        forms += [(("lit", pats[1] | 1, "hex"), False, ovl, "default with two overlapping writable fields (no builder)"),
                  (("lit", pats[1] | 1, "hex"), "via_macro", [lowf], "declaration stamped out by macro_rules!, literal default passed as $d:expr"),
                  (("const", pats[3] | 1), "via_macro", [], "declaration stamped out by macro_rules!, named-constant default passed as $d:expr"),
                  (("lit", pats[1] | 1, "bin"), False, [lowf], "binary literal default"),
                  (("lit", pats[0], "hex_"), False, [], "hex literal with underscores, all ones"),
                  (("lit", pats[1] | 1, "hex"), "debug_after", [], "literal default followed by `debug`"),
                  (("const", pats[0]), "debug_before", [], "`debug` written before a named-constant default"),
                  (("lit", pats[2], "dec"), "trailing_comma", [lowf], "literal default with a trailing comma"),
                  (("lit", pats[0], "sfx"), False, [lowf], "upper-case hex literal with the storage type as suffix, all ones"),
                  (("lit", pats[3] | 1, "dec_sfx"), False, [], "decimal literal with the storage type as suffix"),
                  (("lit", 0, "dec"), False, [lowf], "literal default 0")]
        if tier != "quick":
            forms += [(("lit", pats[2], "dec"), False, [], "literal 1, no fields"),
                      (("const", pats[0]), True, [lowf], "named constant all ones, legacy syntax"),
                      (None, False, [], "no default, no fields")]
        for (d, legacy, fs, tag) in forms:
            import copy
            L = Layout(N, copy.deepcopy(fs), default=d, legacy=(legacy is True), tag=f"u{N}: {tag}")
            if legacy == "debug_after":
                L.debug = True
            elif legacy == "debug_before":
                L.debug, L.debug_first = True, True
            elif legacy == "trailing_comma":
                L.trailing_comma = True
            elif legacy == "via_macro":
                L.via_macro = True
            if d and d[0] == "const":
                # names a generated item might also want to use for itself
                L.const_name = ["MAX", "DEF_CONST", "MASK", "ZERO", "DEFAULT", "BITS", "MIN", "DEFAULT_RAW_VALUE", "RESET"][len(Ls) % 9]
                L.tag += f" (constant named {L.const_name})"
            Ls.append(L)
    return Ls


C06_PRE = """pub trait VProbeNew: Sized { fn new() -> Option<Self> { None } }
pub trait VAsOpt<T> { fn vas_opt(self) -> Option<T>; }
impl<T> VAsOpt<T> for T { fn vas_opt(self) -> Option<T> { Some(self) } }
impl<T> VAsOpt<T> for Option<T> { fn vas_opt(self) -> Option<T> { self } }
pub fn vcopy<T: Copy>(t: &T) -> (T, T) { (*t, *t) }
impl VProbeNew for S {}"""


def h_c06(L):
    from .engine import Harness
    S = L.name
    b = H.raw_sym(L)
    b.append(f"let x = {S}::new_with_raw_value(r);")
    b.append(f'assert!({H.raw_of(L, "x")} == r128, "VERIF raw round trip");')
    b.append("let (c1, c2) = vcopy(&x);")
    b.append(f'assert!({H.raw_of(L, "c1")} == r128 && {H.raw_of(L, "c2")} == r128, "VERIF copy");')
    b.append(f'assert!({H.raw_of(L, S + "::ZERO")} == 0, "VERIF ZERO");')
    st = L.storage
    b.append(f'assert!(core::mem::size_of::<{S}>() == core::mem::size_of::<u{st}>(), "VERIF size_of");')
    b.append(f'assert!(core::mem::align_of::<{S}>() == core::mem::align_of::<u{st}>(), "VERIF align_of");')
    funcs = [f"{S}::new_with_raw_value", f"{S}::raw_value", f"{S}::ZERO"]
    reach = ()
    if L.default:
        d = L.default[1]
        b.append(f'assert!({H.raw_of(L, S + "::DEFAULT")} == {d:#x}u128, "VERIF DEFAULT");')
        b.append(f'assert!({H.raw_of(L, "<" + S + " as Default>::default()")} == {d:#x}u128, "VERIF Default::default()");')
        b.append(f"let n: Option<{S}> = {S}::new().vas_opt();")
        b.append(f'if let Some(n) = n {{ assert!({H.raw_of(L, "n")} == {d:#x}u128, "VERIF new()"); }}')
        b.append('assert!(n.is_some(), "VERIF the (deprecated) new() is not generated although a default is declared");')
        b.append('vcover!(n.is_some(), "VERIF-REACH-new-exists");')
        funcs += [f"{S}::DEFAULT", f"{S}::default", f"{S}::new"]
    b.append("vend!();")
    return Harness("roundtrip", "\n".join(b), "pass", "raw_roundtrip_constants", "C06", "", tuple(funcs), reach=reach)


def h_c06_ctl(L):
    h = h_c06(L)
    h.name = "ctl_roundtrip"
    h.body = h.body.replace('== r128, "VERIF raw round trip"', '== (r128 ^ 1), "VERIF raw round trip"')
    h.expect, h.family = "control", "control"
    return h


def c06_optional_layouts(tier):
    """declarations that may legitimately be rejected (and are today); if a tree accepts them, the
    same constants clauses apply: a declared default is what DEFAULT / Default::default() / new() carry"""
    Ls = []
    for N in (8, 32, 128, 14, 24, 65):
        L = Layout(N, [Field("f0", ty_for_width(max(1, N // 2)), [(0, max(1, N // 2))], None, "rw")], default=("lit", (1 << (N - 1)) | 0x23, "hex"), tag=f"u{N}: default declared AND #[derive(Default)] on the struct")
        L.derives = "Default"
        Ls.append(L)
    for N in (8, 16, 32, 64):
        for (v, lf) in (((1 << N) | 0xff, "hex"), ((1 << N) + 70000, "dec"), ((1 << (N + 4)) | 1, "hex_")):
            L = Layout(N, [Field("f0", T_bool(), [(0, 1)], None, "rw")], default=("lit", v, lf), tag=f"u{N}: literal default {v:#x} does not fit the native base")
            Ls.append(L)
    for N in (7, 14, 24, 33, 65, 100):
        st = storage_bits(N)
        for (form, v) in (("lit", (1 << N) | 0x5), ("const", (1 << (st - 1)) | 0x12), ("lit", mask(st))):
            L = Layout(N, [Field("f0", T_bool(), [(0, 1)], None, "rw")], default=(form, v, "hex") if form == "lit" else (form, v), tag=f"u{N}: default {v:#x} does not fit the base (fits the u{st} storage)")
            Ls.append(L)
    return Ls


def plan_c06(tier, seed):
    Ls = c06_layouts(tier, seed) + surface_layouts()
    us = []
    for i, L in enumerate(Ls):
        u = Unit(f"l{i:05d}", L.decl(), [h_c06(L)], {"layout": L, "sig": L.sig(), "tag": L.tag, "valid": True})
        u.decl = L.decl() + "\n" + C06_PRE
        us.append(u)
    nv = len(us)
    for i, L in enumerate(c06_optional_layouts(tier)):
        h = h_c06(L)
        h.role = "optional-declaration"
        u = Unit(f"o{i:05d}", L.decl() + "\n" + C06_PRE, [h], {"layout": L, "sig": L.sig(), "tag": L.tag, "valid": False, "role": "optional-declaration"})
        us.append(u)
    for k in (0, nv // 2, nv - 1):
        us[k].harnesses.append(h_c06_ctl(us[k].meta["layout"]))
    # the same declarations (every 4th, all forms of default among them) inside a #![no_std] crate
    nostd = [Unit(f"n{i:05d}", u.meta["layout"].decl(), [], {"layout": u.meta["layout"], "sig": u.meta["sig"], "tag": u.meta["tag"] + " [no_std crate]", "valid": True, "role": "no_std-crate"})
             for i, u in enumerate(us[:nv]) if i % 4 == 0 or u.meta["layout"].debug or u.meta["layout"].via_macro]
    return Plan(us, title="raw round trip, constants, layout", chunk=120, nostd_units=nostd,
                bounds={"inputs": "all 2^N raw values per base", "bases": "5 native + %d arbitrary-int widths" % (len(QUICK_ARB) if tier == "quick" else len(ALL_ARB)),
                        "default forms": "none / hex literal all-ones / named constant / decimal literal, `=` and legacy `:`; with and without fields",
                        "ground obligations": "size_of/align_of, Copy, ZERO, DEFAULT, Default::default, new() are evaluated, not quantified"},
                assumptions=COMMON_ASSUME + ["the deprecated new() is probed through an inherent-over-trait fallback: if it were removed the clause is skipped (evidence shows VERIF-REACH-new-exists)"])


# ------------------------------------------------------------------------------------------------
# C07
def enum_corpus(tier, seed):
    rnd = random.Random(seed * 65537 + 7)
    srnd = random.Random(77)
    Es = []

    def add(bits, discrs, exhaustive="auto", legacy=False, cfg=None, tag=""):
        discrs = list(discrs)
        full = len(set(discrs)) == (1 << bits) if bits <= 16 else False
        if exhaustive == "auto":
            exhaustive = "true" if full else [None, "false"][len(Es) % 2]
        # declaration order is part of the shape: ascending, descending, shuffled (deterministic)
        order = "asc"
        if cfg is None and len(discrs) > 1:
            order = ["asc", "desc", "shuffled"][len(Es) % 3]
            if order == "desc":
                discrs = list(reversed(discrs))
            elif order == "shuffled":
                random.Random(len(Es) * 31 + bits).shuffle(discrs)
        vs = [(f"V{i}", d, (cfg[i] if cfg else None)) for i, d in enumerate(discrs)]
        if cfg is None and len(Es) % 5 == 4:
            vs = [(n_, d_, "doc" if i_ % 2 == 0 else None) for i_, (n_, d_, _) in enumerate(vs)]
        e = EnumDef("E", bits, vs, exhaustive, legacy)
        e.lit_form = ["hex", "dec", "bin", "hex_"][len(Es) % 4] if bits <= 32 or len(Es) % 2 else "hex"
        e.tag = tag or f"u{bits} {len(discrs)} variants exhaustive={exhaustive} declared {order}, literals {e.lit_form}"
        Es.append(e)

    # N = 1, 2: every non-empty subset
    for bits in (1, 2):
        n = 1 << bits
        for m in range(1, 1 << n):
            add(bits, [d for d in range(n) if m >> d & 1], legacy=(m % 3 == 0))
    # N = 3
    subs = list(range(1, 256))
    if tier == "quick":
        subs = [255, 1, 128, 129, 0x7f, 0xfe] + random.Random(3).sample(subs, 34)
    for m in subs:
        add(3, [d for d in range(8) if m >> d & 1])
    # larger N
    for bits in (4, 5, 6, 7, 8, 9, 15, 16, 17, 31, 32, 33, 63, 64):
        top = (1 << bits) - 1
        add(bits, [0])
        add(bits, [top])
        add(bits, [0, top], exhaustive="false")
        add(bits, [1 << k for k in range(bits)][:64])
        add(bits, list(range(min(40, top))))
        k = srnd.randint(2, 64)
        add(bits, sorted(srnd.sample(range(min(top + 1, 1 << 20)), min(k, top))) + ([top] if bits > 20 else []))
        if bits <= 8 and (tier != "quick" or bits in (4, 5, 8)):
            add(bits, list(range(1 << bits)), exhaustive="true")
        if bits <= 8 and (tier != "quick" or bits in (4, 5)):
            add(bits, list(range(1, 1 << bits)))  # all but zero
            add(bits, list(range((1 << bits) - 1)))  # all but top
        if tier != "quick":
            for _ in range(4):
                k = rnd.randint(1, 64)
                pool = range(top + 1) if bits <= 20 else None
                ds = sorted(rnd.sample(pool, min(k, top + 1))) if pool else sorted(set(rnd.getrandbits(bits) for _ in range(k)))
                add(bits, ds)
    # explicit #[repr] narrower than (or different from) the storage integer
    for (bits, ds, rp) in ((10, [1, 0x80, 0xff], "u8"), (12, [0, 200], "u8"), (20, [3, 0x8000, 0xffff], "u16"), (33, [0, 0xffff_ffff], "u32"), (9, [0, 1, 2, 255], "u16"), (3, [0, 7], "u64")):
        add(bits, ds, tag=f"u{bits} storage with #[repr({rp})]")
        Es[-1].repr = rp
    # conditional enums: cfg-gated variants, active set known; may list more than 2^N variants
    add(2, [0, 1, 2, 3], exhaustive="conditional", cfg=[None, "on", None, "on"], tag="conditional, all active")
    add(2, [0, 1, 2, 3], exhaustive="conditional", cfg=[None, "off", None, "on"], tag="conditional, one inactive")
    add(2, [0, 1, 1, 2, 3], exhaustive="conditional", cfg=[None, "on", "off", None, None], tag="conditional, more than 2^N listed, duplicates gated off")
    add(1, [0, 1], exhaustive="conditional", cfg=[None, None], tag="conditional without any cfg")
    add(8, [0, 255, 7], exhaustive="conditional", cfg=["on", "off", None], tag="conditional native storage")
    add(3, [5], exhaustive="conditional", cfg=[None], tag="conditional single")
    add(2, [0, 1, 1, 2, 3], exhaustive="conditional", cfg=[None, "off", "on", None, None], tag="conditional, same discriminant twice: FIRST alternative gated off, second active")
    add(3, [7, 7, 0, 3, 3, 3], exhaustive="conditional", cfg=["off", "on", None, "off", "off", "on"], tag="conditional, alternatives with equal discriminants, the active one declared last")
    add(2, [0, 1, 2, 3], exhaustive="conditional", cfg=[None, "off_doc", None, "on_doc"], tag="conditional, cfg attributes preceded by doc comments")
    add(1, [0, 1], exhaustive="conditional", cfg=["on_doc", "off_doc"], tag="conditional u1 with documented cfg variants, one inactive")
    add(8, [1, 1, 200], exhaustive="conditional", cfg=["off_doc", "on", None], tag="conditional native storage, first alternative (documented) off")
    for (bits, spec_) in ((2, [("Idle", 0, None), ("Burst", 1, "on"), ("Burst", 2, "off"), ("Stop", 3, None)]), (2, [("Idle", 0, None), ("Burst", 1, "off"), ("Burst", 2, "on")]), (3, [("A", 7, "on"), ("A", 0, "off"), ("B", 1, None), ("A", 5, "off")])):
        e = EnumDef("E", bits, list(spec_), "conditional")
        e.tag = f"conditional u{bits}: the same variant NAME declared under exclusive cfgs with different discriminants {spec_}"
        Es.append(e)
    # discriminants carrying the suffix of an explicit #[repr] type (in range)
    for (bits, ds, rp) in ((3, [0, 1, 7], "u8"), (8, [0, 200, 255], "u8"), (12, [5, 4095], "u16"), (2, [0, 1, 2, 3], "u8")):
        e = EnumDef("E", bits, [(f"V{i}", d, None) for i, d in enumerate(ds)], "true" if len(ds) == (1 << bits) else None)
        e.repr = rp
        e.discr_text, e.discr_text_valid = {f"V{i}": f"{d}{rp}" for i, d in enumerate(ds) if i != 1}, True
        e.tag = f"u{bits} with #[repr({rp})] and discriminants written with the {rp} suffix"
        Es.append(e)
    # the whole declaration stamped out by macro_rules!: enum name, base type, exhaustive value and variant names as
    # fragments; enum-level doc comments that mention trait names and the word exhaustive
    for (bits, ds, ex, cfg) in ((2, [0, 1, 2, 3], "true", None), (3, [0, 5, 7], "false", None), (8, [1, 200], None, None), (2, [0, 1, 3], "conditional", [None, "on", "off"]), (1, [0, 1], "true", None)):
        e = EnumDef("E", bits, [(["Idle", "Busy", "Done", "Fault"][i], d, (cfg[i] if cfg else None)) for i, d in enumerate(ds)], ex)
        e.macro_idents = True
        e.enum_doc = "Debug state (non-exhaustive list; Copy of the PartialEq Default)"
        e.tag = f"u{bits} enum stamped out by macro_rules! (name, base type, exhaustive={ex}, variant names as fragments), documented"
        Es.append(e)
    # variant and type names that generated code might itself want to use unqualified
    for (nm, bits, spec_, ex) in (("E", 2, [("Ok", 0, None), ("Err", 1, None), ("None", 3, None)], None), ("E", 1, [("Some", 1, None), ("None", 0, None)], "true"),
                                  ("E", 3, [("Self_", 0, None), ("Result", 1, None), ("Option", 2, None), ("Default", 5, None), ("MAX", 7, None)], "false"),
                                  ("Value", 2, [("Value", 0, None), ("Raw", 2, None)], None), ("Output", 8, [("Zero", 0, None), ("Max", 255, None)], None)):
        e = EnumDef(nm, bits, list(spec_), ex)
        e.tag = f"u{bits} enum {nm} with variants named {[x[0] for x in spec_]}"
        Es.append(e)
    return Es


def h_enum_from_raw(E: EnumDef):
    from .engine import Harness
    N = E.bits
    b = [f"let x: u{N} = {H.uint_sym(N)};", f"let x128: u128 = {H.uint_u128(N, 'x')};"]
    b.append(f"let res = {E.name}::new_with_raw_value(x);")
    act = E.active
    if not E.returns_result:
        b.append(f"let e: {E.name} = res;")
        b.append(f'assert!((e as u128) == x128, "VERIF exhaustive enum: wrong variant");')
    else:
        prim = E.prim()
        b.append("match res {")
        b.append(f'    Ok(e) => {{ let e: {E.name} = e; assert!({H.is_variant_expr(E, "x128")}, "VERIF Ok for a value that has no variant"); assert!((e as u128) == x128, "VERIF wrong variant"); }}')
        b.append(f'    Err(p) => {{ let p: {prim} = p; assert!(!{H.is_variant_expr(E, "x128")}, "VERIF Err for a declared discriminant"); assert!((p as u128) == x128, "VERIF Err payload != raw value"); }}')
        b.append("}")
    b.append("vend!();")
    return Harness("from_raw", "\n".join(b), "pass", "enum_from_raw", "C07", "", (f"{E.name}::new_with_raw_value", f"arbitrary_int::UInt::value"))


def h_enum_to_raw(E: EnumDef):
    from .engine import Harness
    N = E.bits
    b = H.enum_select(E, "v", "sel")
    b.append(f"let rv: u{N} = v.raw_value();")
    b.append(f"let rv128: u128 = {H.uint_u128(N, 'rv')};")
    b.append('assert!(rv128 == (v as u128), "VERIF raw_value() != discriminant");')
    # discriminant table written from the declaration
    arms = " ".join(f"{i} => {d:#x}u128," for i, (_, d) in enumerate(E.active[:-1])) + f" _ => {E.active[-1][1]:#x}u128,"
    b.append(f"let want: u128 = match sel {{ {arms} }};")
    b.append('assert!(rv128 == want, "VERIF raw_value() != declared discriminant");')
    if len(E.active) <= 64:
        # for larger enums the round trip follows from from_raw (for all x) + raw_value == discriminant
        b.append(f"let back = {E.name}::new_with_raw_value(rv);")
        if E.returns_result:
            b.append('match back { Ok(e) => assert!((e as u128) == want, "VERIF round trip variant"), Err(_) => assert!(false, "VERIF round trip gave Err") }')
        else:
            b.append('assert!((back as u128) == want, "VERIF round trip variant");')
    b.append("vend!();")
    return Harness("to_raw", "\n".join(b), "pass", "enum_to_raw_roundtrip", "C07", "", (f"{E.name}::raw_value", f"{E.name}::new_with_raw_value", "arbitrary_int::UInt::new"))


def plan_c07(tier, seed):
    Es = enum_corpus(tier, seed)
    us = []
    for i, e in enumerate(Es):
        us.append(Unit(f"e{i:05d}", e.decl(), [h_enum_from_raw(e), h_enum_to_raw(e)], {"enum": e, "sig": e.sig(), "tag": e.tag, "valid": True}))
    for k in (0, len(us) // 2, len(us) - 1):
        e = us[k].meta["enum"]
        h = h_enum_from_raw(e)
        h.name, h.expect, h.family = "ctl_from_raw", "control", "control"
        h.body = h.body.replace("let x128: u128 = ", "let x128: u128 = 1u128 ^ ", 1)
        us[k].harnesses.append(h)
    return Plan(us, title="bitenum conversions", chunk=260,
                bounds={"inputs": "all 2^N raw values and all variants per enum (symbolic)", "enums": "N=1,2: every non-empty subset; N=3: %s; N in {4..8,9,15,16,17,31,32,33,63,64}: {0},{max},{0,max}, powers of two, dense prefix, random sets <= 64 variants, full / all-but-zero / all-but-top for N <= 8; conditional enums with cfg(all())/cfg(any()) variants" % ("40 subsets" if tier == "quick" else "all 255 subsets")},
                assumptions=COMMON_ASSUME + ["variants are compared through `as u128` so no derive is required of the enum"])


PLANS.update({"C06": plan_c06, "C07": plan_c07})


# ------------------------------------------------------------------------------------------------
# C08
def custom_types_for(w, tier, rnd):
    """[(FType, aux)] presentations of a w-bit custom-typed field"""
    out = []
    if w <= 64:
        if w <= (8 if tier != "quick" else 4):
            e = full_enum("EF", w)
            out.append((FType("enum", w, e), e))
        top = (1 << w) - 1
        ds = sorted(set([0, top, 1 % (top + 1), (top // 2) + 1] + [rnd.getrandbits(w) for _ in range(3)]))
        if len(ds) == (1 << w):
            ds = ds[:-1] if len(ds) > 1 else ds
        if w == 1:
            ds = [1]
        e = sparse_enum("EO", w, ds, [None, "false"][w % 2])
        out.append((FType("optenum", w, e), e))
    out.append((FType("custom", w, None, "Cust"), custom_decl("Cust", w)))
    out.append((FType("nested", w, None, "Inner"), nested_decl("Inner", w)))
    return out


def placements(W, w):
    P = [("plain lo=0", [(0, w)], None)]
    if W - w > 0:
        P.append(("plain at top", [(W - w, w)], None))
    if W - w > 3:
        P.append(("plain unaligned", [(3, w)], None))
    if 2 * w <= W:
        P.append(("array K=2 at top", [(W - 2 * w, w)], (2, w, False)))
    if 2 * w + 1 <= W:
        s = w + 1
        K = min((W - w) // s + 1, 6)
        P.append((f"array stride {s} K={K}", [(0, w)], (K, s, True)))
    if W // 4 >= w and W >= 16:
        P.append((f"array K=4 spread over the base (stride {W // 4})", [(0, w)], (4, W // 4, W // 4 != w)))
        if W // 4 > w:
            P.append((f"array K=4 spread, each element at the top of its quarter", [(W // 4 - w, w)], (4, W // 4, True)))
    if w >= 2 and W - w >= 1:
        h1 = w // 2
        h2 = w - h1
        P.append(("list swapped halves", [(W - h2, h2), (0, h1)], None))
    if w >= 2 and W >= 16 and W // 2 - 1 + w - w // 2 <= W and w // 2 <= W // 2 - 1:
        # a list with a piece straddling the middle of the base (bit W/2-1 | W/2)
        h1 = w // 2
        h2 = w - h1
        if h2 >= 2 and W // 2 - 1 + h2 <= W and h1 <= W // 2 - 1:
            P.append(("list with a piece straddling the middle", [(W // 2 - 1, h2), (0, h1)], None))
    if w >= 2 and 2 * w + 2 <= W:
        h1 = w // 2
        h2 = w - h1
        P.append(("array of lists", [(h1 + 1, h2), (0, h1)], (2, w + 1, True)))
    return P


def c08_extra_layouts(tier):
    """custom-typed fields as wide as the base over a permuted range list; qualified type paths"""
    import copy
    Ls = []
    rnd = random.Random(88)
    for (W, bits, ds, rp) in ((32, 10, [1, 0x80, 0xff], "u8"), (128, 10, [1, 0x80, 0xff], "u8"), (64, 20, [3, 0x8000, 0xffff], "u16"), (24, 12, [0, 200], "u8")):
        for placement in ("plain", "array", "top"):
            e = sparse_enum("ER", bits, ds, None)
            e.repr = rp
            if placement == "plain":
                f = Field("f", FType("optenum", bits, e), [(1, bits)], None, "rw")
            elif placement == "top":
                f = Field("f", FType("optenum", bits, e), [(W - bits, bits)], None, "rw")
            else:
                if 2 * (bits + 2) > W:
                    continue
                f = Field("f", FType("optenum", bits, e), [(0, bits)], (2, bits + 2, True), "rw")
            Ls.append(Layout(W, [f], aux=[e], tag=f"Option<enum> with #[repr({rp})] over u{bits} storage, {placement}, on u{W}"))
    for W in (8, 16, 32, 64, 128, 24):
        h = W // 2
        lists = [[(h, W - h), (0, h)]]
        if W >= 16:
            q = W // 4
            lists.append([(3 * q, W - 3 * q), (q, q), (2 * q, q), (0, q)])
        for rs in lists:
            for (ft, aux) in custom_types_for(W, "quick", rnd):
                Ls.append(Layout(W, [Field("f", copy.deepcopy(ft), rs, None, "rw")], aux=[copy.deepcopy(aux)], tag=f"{ft.kind} as wide as the base over a permuted list on u{W}"))
    for W in (16, 64, 24):
        e = sparse_enum("EO", 3, [0, 4, 5, 7], None)
        Ls.append(Layout(W, [Field("speed", FType("optenum", 3, e), [(0, 2), (7, 1)], None, "rw", list_split=1)], aux=[e], tag=f"Option<enum> over a range list split across two attributes on u{W}"))
        e2 = full_enum("EF", 2)
        Ls.append(Layout(W, [Field("m", FType("enum", 2, e2), [(W - 2, 1), (3, 1)], (2, 1, True), "rw", list_split=1, list_trailing_comma=True)], aux=[e2], tag=f"array of exhaustive enums over a split list on u{W}"))
    for style in ("qualified", "abs", "std"):
        for W in (16, 64, 24):
            e = sparse_enum("EO", 3, [0, 5, 7], None)
            Ls.append(Layout(W, [Field("f", FType("optenum", 3, e, path=style), [(2, 3)], None, "rw")], aux=[e], tag=f"Option<enum> written with a {style} path on u{W}"))
            e = sparse_enum("EO", 3, [0, 5, 7], None)
            Ls.append(Layout(W, [Field("f", FType("optenum", 3, e, path=style), [(1, 3)], (3, 4, True), "rw")], aux=[e], tag=f"array of Option<enum> written with a {style} path on u{W}"))
            if style != "std":
                Ls.append(Layout(W, [Field("f", FType("uint", 5, path=style), [(W - 5, 5)], None, "rw"), Field("g", FType("uint", 3, path=style), [(0, 3)], (2, 4, True), "rw")], tag=f"arbitrary-int types written with a {style} path on u{W}"))
    return Ls


def c08_layouts(tier, seed):
    rnd = random.Random(8)
    Ls = c08_extra_layouts(tier)
    widths = [1, 2, 3, 4, 5, 7, 8, 9, 12, 15, 16, 17, 31, 32, 33, 63, 64, 65, 100, 127, 128] if tier != "quick" else [1, 2, 3, 7, 8, 9, 15, 16, 32, 64, 128]
    for w in widths:
        bases = []
        for W in NATIVE_BASES:
            if W >= w:
                bases.append(W)
        if tier == "quick":
            bases = bases[:1] + ([128] if 128 not in bases[:1] else [])
        arb = [n for n in ([24, 65, 100, 127] if tier == "quick" else ALL_ARB[::9] + [127]) if n >= w]
        bases += arb[:1] if tier == "quick" else arb[:4]
        for W in bases:
            tys = custom_types_for(w, tier, rnd)
            for pi, (ptag, rs, arr) in enumerate(placements(W, w)):
                # quick: every placement gets two of the type presentations (rotating), thorough: all
                sel = tys if tier != "quick" else [tys[(pi + k) % len(tys)] for k in range(min(2, len(tys)))]
                for (ft, aux) in sel:
                    import copy
                    Ls.append(Layout(W, [Field("f", copy.deepcopy(ft), rs, arr, "rw")], aux=[copy.deepcopy(aux)], tag=f"{ft.kind} w={w} {ptag} on u{W}"))
    return Ls


def plan_c08(tier, seed):
    Ls = c08_layouts(tier, seed) + [L for L in surface_layouts() if any(isinstance(a_, EnumDef) for a_ in L.aux)]
    us = units_from(Ls, lambda L: sum([field_harnesses(L, f, "C08", oob=False) for f in L.fields], []))
    add_controls(us, "C08", kinds=("get", "set", "get"))
    return Plan(us, title="enum / custom typed fields", chunk=220 if tier == "quick" else 600,
                bounds={"inputs": "all raw values x all variants / inner values x all indices", "types": "exhaustive bitenum (w<=4 quick, <=8 thorough), Option<bitenum> (1..64 bits incl. native u8/u16/u32/u64 storage), hand-written custom type and nested bitfield (1..128 bits)",
                        "placements": "plain lo=0 / top / unaligned, array default stride and with gaps, swapped two-range list, array of lists"},
                assumptions=COMMON_ASSUME + ["the custom type is a trivial hand-written wrapper; the nested bitfield's own raw conversions are C06's subject; enum values are chosen by a symbolic selector over the declared variants and compared through `as u128`"])


PLANS.update({"C08": plan_c08})


# ------------------------------------------------------------------------------------------------
# shared: symbolic operations on a layout
from .engine import Harness


def getters_agree_with(L, obj, rawexpr, tagmsg, b, sfx=""):
    """append: every readable field of `obj` presents exactly the register bits of rawexpr (u128)"""
    for f in L.fields:
        if not f.readable:
            continue
        if f.array:
            b.append(f"let j{sfx}_{f.name}: usize = vany(); vassume(j{sfx}_{f.name} < {f.K});")
            i = f"j{sfx}_{f.name}"
            sh = f"(({i} as u32) * {f.stride})"
        else:
            i, sh = "", "0u32"
        b.append(f"let g{sfx}_{f.name}: {f.ty.getter_ty()} = {H.call_get(f, obj, i)};")
        b.append(f"let w{sfx}_{f.name}: u128 = spec::get({rawexpr}, {H.rng(f.ranges)}, {sh});")
        b += H.getter_check(f.ty, f"g{sfx}_{f.name}", f"w{sfx}_{f.name}", f"VERIF {tagmsg}: getter {f.name} != register bits")


def op_arms(L, cur, model, step, forms=("with", "set")):
    """match arms applying one symbolic write to `cur` (a `let mut` of type S) and to the u128 model"""
    arms = []
    n = 0
    for f in L.fields:
        if not f.writable:
            continue
        for form in forms:
            lines = []
            if f.array:
                lines.append(f"let i: usize = vany(); vassume(i < {f.K});")
                i, sh = "i", f"((i as u32) * {f.stride})"
            else:
                i, sh = "", "0u32"
            lines += H.val_sym(f.ty, "v")
            if form == "with":
                lines.append(f"{cur} = {H.call_with(f, cur, i, 'v')};")
            else:
                lines.append(H.call_set(f, cur, i, "v"))
            lines.append(f"{model} = spec::put({model}, {H.rng(f.ranges)}, {sh}, {H.val_bits(f.ty, 'v')});")
            arms.append((n, " ".join(lines)))
            n += 1
    return arms


def emit_op(b, L, cur, model, step):
    arms = op_arms(L, cur, model, step)
    n = len(arms)
    b.append(f"let op{step}: u8 = vany(); vassume(op{step} < {n});")
    b.append(f"match op{step} {{")
    for (k, body) in arms[:-1]:
        b.append(f"    {k} => {{ {body} }}")
    b.append(f"    _ => {{ {arms[-1][1]} }}")
    b.append("}")
    return n


# ------------------------------------------------------------------------------------------------
# C12
def h_history(L, k, name):
    b = H.raw_sym(L)
    b.append(f"let mut x = {L.name}::new_with_raw_value(r);")
    b.append("let mut m: u128 = r128;")
    for s in range(k):
        emit_op(b, L, "x", "m", s)
        if s < k - 1:
            b.append(f'assert!({H.raw_of(L, "x")} == m, "VERIF history: state after step {s} != last-write-wins register");')
    b.append(f'assert!({H.raw_of(L, "x")} == m, "VERIF history: final state != last-write-wins register");')
    getters_agree_with(L, "x", "m", "history", b)
    b.append("vend!();")
    return Harness(name, "\n".join(b), "pass", f"history_k{k}", "C12", "", tuple(f"{L.name}::with_/set_{f.name}" for f in L.fields if f.writable))


def disjoint(f, g):
    return not (set(f.all_positions()) & set(g.all_positions()))


def h_commute(L):
    hs = []
    ws = [f for f in L.fields if f.writable]
    pairs = [(a, b) for i, a in enumerate(ws) for b in ws[i + 1:] if disjoint(a, b)]
    for n, (f, g) in enumerate(pairs[:3]):
        b = H.raw_sym(L)
        b.append(f"let x = {L.name}::new_with_raw_value(r);")
        for (fld, v, i) in ((f, "va", "ia"), (g, "vb", "ib")):
            if fld.array:
                b.append(f"let {i}: usize = vany(); vassume({i} < {fld.K});")
            b += H.val_sym(fld.ty, v)
        ia = "ia" if f.array else ""
        ib = "ib" if g.array else ""
        b.append(f"let p = {H.call_with(g, H.call_with(f, 'x', ia, 'va'), ib, 'vb')};")
        b.append(f"let q = {H.call_with(f, H.call_with(g, 'x', ib, 'vb'), ia, 'va')};")
        b.append(f'assert!({H.raw_of(L, "p")} == {H.raw_of(L, "q")}, "VERIF writes to disjoint fields {f.name}, {g.name} do not commute");')
        b.append("vend!();")
        hs.append(Harness(f"commute_{f.name}_{g.name}", "\n".join(b), "pass", "commute", "C12", f"{f.name},{g.name}", ()))
    return hs


def c12_directed_layouts():
    Ls = []
    for (W, order) in ((32, "ras"), (64, "sra"), (24, "asr"), (128, "rsa")):
        fs = [Field("odd", T_uint(4), [(1, 1), (3, 1), (5, 1), (7, 1)], (W // 8 if W // 8 <= 4 else 4, 8, True), "rw", arg_order=order),
              Field("even", T_uint(4), [(6, 1), (4, 1), (2, 1), (0, 1)], (W // 8 if W // 8 <= 4 else 4, 8, True), "rw", arg_order=order),
              Field("low", T_uint(4), [(0, 4)], (2, 8, True), "rw", arg_order=order),
              Field("high", T_uint(4), [(4, 4)], (2, 8, True), "rw", arg_order=order),
              Field("bytes", T_uint(8), [(0, 8)], (2, 8, False), "rw"),
              Field("top", T_bool(), [(W - 1, 1)], None, "rw")]
        Ls.append(Layout(W, fs, tag=f"overlapping views: arrays of range lists (first range not at bit 0), strided nibbles, bytes; attribute argument order '{order}' on u{W}"))
        K = min(W // 8, 4)
        fs2 = [Field("offset", T_int(8), [(0, 8)], (K, 8, False), "rw"), Field("swapped", T_uint(8), [(4, 4), (0, 4)], (K, 8, True), "rw"), Field("rev", T_uint(4), [(3, 1), (2, 1), (1, 1), (0, 1)], (K, 8, True), "rw"),
               Field("plain", T_uint(8), [(0, 8)], (K, 8, False), "rw"), Field("split", T_uint(4), [(4, 4)], (K, 8, True), "rw", attr_split="access_last")]
        Ls.append(Layout(W, fs2, tag=f"permuted gap-free range lists on arrays next to plain views of the same bits; a field whose arguments are split over two attributes; on u{W}"))
    return Ls


def h_untouched(L, f):
    """a write leaves every bit that the field does not name exactly as it was (the only clause that is
    meaningful for lists naming a bit twice)"""
    b = H.raw_sym(L)
    b.append(f"let x = {L.name}::new_with_raw_value(r);")
    il, i, sh = H.idx_lines(f)
    b += il
    b += H.val_sym(f.ty, "v")
    b.append(f"let m: u128 = spec::mask({H.rng(f.ranges)}, {sh});")
    b.append(f"let y = {H.call_with(f, 'x', i, 'v')};")
    b.append(f'assert!(({H.raw_of(L, "y")} & !m) == (r128 & !m), "VERIF with_{f.name} changed a bit the field does not name");')
    b.append("let mut z = x;")
    b.append(H.call_set(f, "z", i, "v"))
    b.append(f'assert!(({H.raw_of(L, "z")} & !m) == (r128 & !m), "VERIF set_{f.name} changed a bit the field does not name");')
    if f.ty.kind == "uint":
        # unambiguous even when a bit is named twice: writing all-zeros clears every named bit, all-ones sets them
        zero = H.uint_from_u128(f.ty.width, "0u128")
        ones = H.uint_from_u128(f.ty.width, f"{mask(f.ty.width):#x}u128")
        b.append(f'assert!(({H.raw_of(L, H.call_with(f, "x", i, zero))} & m) == 0, "VERIF writing zero leaves a named bit set");')
        b.append(f'assert!(({H.raw_of(L, H.call_with(f, "x", i, ones))} & m) == m, "VERIF writing all-ones leaves a named bit clear");')
    b.append("vend!();")
    return Harness(f"untouched_{f.name}", "\n".join(b), "pass", "untouched_bits", "C12", f.name, ())


def list_syntax_layouts():
    """range lists with a trailing comma, split over two attributes, and with up to 16 entries"""
    Ls = []
    for W in (32, 64, 24, 128):
        Ls.append(Layout(W, [Field("f", T_uint(8), [(0, 4), (8, 4)], None, "rw", list_split=1), Field("g", T_uint(2), [(16, 1), (18, 1)], None, "rw", list_trailing_comma=True),
                             Field("h", T_uint(4), [(20, 2), (12, 2)], (2, 2, True), "rw", list_trailing_comma=True)], tag=f"lists split over two attributes / with trailing commas on u{W}"))
        Ls.append(Layout(W, [Field("f", T_uint(12), [(1, 3), (5, 3), (9, 3), (13, 3)], None, "rw", list_split=2), Field("a", T_uint(4), [(W - 6, 1), (W - 4, 1), (W - 8, 1), (W - 2, 1)], None, "rw", list_split=3, form="bit_list")], tag=f"four-entry lists split 2+2 and 3+1 on u{W}"))
    for W in (32, 24, 128):
        Ls.append(Layout(W, [Field("a", T_uint(8), [(8, 8)], None, "rw", args_trailing_comma=True), Field("b", T_uint(8), [(0, 4), (4, 4)], None, "rw", args_trailing_comma=True), Field("c", T_bool(), [(16, 1)], (3, 2, True), "rw", args_trailing_comma=True)], tag=f"attribute argument lists ending in a comma on u{W}"))
    # every-other-bit lists whose length is not a power of two
    for (W, n, arr) in ((16, 5, None), (32, 6, (2, 1, True)), (32, 7, None), (64, 12, None), (128, 9, (2, 64, True)), (24, 11, None)):
        Ls.append(Layout(W, [Field("e", T_uint(n), [(2 * k, 1) for k in range(n)], arr, "rw")], tag=f"every other bit, {n} entries{', array' if arr else ''} on u{W}"))
    # long lists: Morton codes and friends
    Ls.append(Layout(64, [Field("coord", T_uint(16), [(2 * k, 1) for k in range(16)], (2, 1, True), "rw")], tag="Morton code: 16 single-bit entries, interleaving array of two on u64"))
    Ls.append(Layout(128, [Field("m", T_uint(16), [(4 * k + 1, 1) for k in range(16)], None, "rw"), Field("n", T_uint(12), [(4 * k, 1) for k in range(12)], (2, 64, True), "rw")], tag="lists of 16 and 12 single-bit entries on u128"))
    # more than 16 / 32 / 64 entries: full bit reversals and friends
    Ls.append(Layout(32, [Field("rev", T_uint(32), [(31 - k, 1) for k in range(32)], None, "rw")], tag="bit reversal of u32 written as 32 single-bit entries"))
    Ls.append(Layout(64, [Field("m", T_uint(17), [(3 * k + 1, 1) for k in range(17)], None, "rw"), Field("n", T_int(8), [(3 * k, 1) for k in range(8)], None, "rw")], tag="17 and 8 single-bit entries on u64"))
    Ls.append(Layout(128, [Field("m", T_uint(33), [(127 - 3 * k, 1) for k in range(33)], None, "rw")], tag="33 descending single-bit entries on u128"))
    Ls.append(Layout(128, [Field("m", T_uint(65), [(2 * k, 1) if k < 63 else (k + 63, 1) for k in range(65)], None, "rw")], tag="65 single-bit entries on u128"))
    Ls.append(Layout(64, [Field("rev", T_uint(64), [(63 - k, 1) for k in range(64)], None, "rw")], tag="bit reversal of u64 written as 64 single-bit entries"))
    Ls.append(Layout(32, [Field("m", T_uint(10), [(31 - 3 * k, 1) for k in range(10)], None, "rw")], tag="descending list of 10 single bits with gaps on u32"))
    Ls.append(Layout(100, [Field("m", T_uint(27), [(3 * k, 3) if k % 2 else (3 * k + 40, 3) for k in range(9)], None, "rw")], tag="nine 3-bit entries on u100"))
    return Ls


def bit_keyword_list_layouts():
    Ls = list_syntax_layouts()
    Ls.append(Layout(32, [Field("type", T_uint(8), [(0, 4), (8, 4)], None, "rw", raw_ident=True), Field("in", T_uint(2), [(16, 1), (18, 1)], (3, 4, True), "rw", raw_ident=True, form="bit_list")], tag="raw-identifier fields declared with range lists on u32"))
    Ls.append(Layout(24, [Field("v", T_uint(8), [(0, 4), (8, 4)], (3, 0, True), "rw"), Field("w", T_uint(2), [(20, 1), (22, 1)], (2, 0, True), "rw")], tag="range-list arrays with stride 0 on u24"))
    for W in (8, 32, 24, 128):
        Ls.append(Layout(W, [Field("x", T_uint(2), [(0, 1), (4, 1)], None, "rw", form="bit_list"), Field("y", T_uint(4), [(W - 4, 4)], None, "rw", form="bit_list"), Field("z", T_uint(2), [(1, 1), (3, 1)], (2, 4, True), "rw", form="bit_list")], tag=f"multi-bit fields whose lists are spelled under `bit` on u{W}"))
    return Ls


def c12_selfoverlap_layouts():
    Ls = []
    for W in (16, 32, 24, 128):
        h, q = W // 2, W // 4
        Ls.append(Layout(W, [Field("a", T_uint(W), [(0, h), (q, h)], None, "rw")], tag=f"self-overlapping list as wide as the storage on u{W}"))
        Ls.append(Layout(W, [Field("a", T_uint(8), [(1, 4), (3, 4)], None, "rw"), Field("b", T_uint(3), [(W - 3, 3)], None, "rw")], tag=f"self-overlapping list plus a scalar on u{W}"))
    # the shared bits end on the top bit of the storage integer (a carry out of them has nowhere to go)
    for W in (8, 16, 32, 64, 128):
        Ls.append(Layout(W, [Field("a", T_uint(6), [(W - 4, 4), (W - 2, 2)], None, "rw")], tag=f"self-overlapping list [{W - 4}..={W - 1}, {W - 2}..={W - 1}] at the top of u{W}"))
        Ls.append(Layout(W, [Field("a", T_uint(2), [(W - 1, 1), (W - 1, 1)], None, "rw"), Field("v", T_uint(4), [(0, 2), (1, 2)], (2, 3, True), "rw")], tag=f"list naming the top bit of u{W} twice, and an array of self-overlapping lists"))
    return Ls


def c12_layouts(tier, seed):
    Ls = c12_directed_layouts() + bit_keyword_list_layouts()
    # several range-list fields in one struct (arrays and non-arrays mixed)
    for W in (32, 64, 24, 128):
        fs = [Field("imm", T_uint(6), [(7, 2), (W - 4, 4)], None, "rw"), Field("funct", T_uint(3), [(12, 1), (14, 2)], None, "rw"),
              Field("lanes", T_uint(2), [(0, 1), (3, 1)], (2, 1, True), "rw"), Field("tail", T_int(8), [(17, 4), (9, 1), (4, 3)], None, "rw") if W >= 32 else Field("tail", T_uint(4), [(17, 2), (9, 1), (4, 1)], None, "rw"),
              Field("plain", T_uint(2), [(5, 2)], None, "rw")]
        Ls.append(Layout(W, fs, tag=f"several range-list fields (and an array of lists) in one struct on u{W}"))
    srnd = random.Random(1212)
    rnd = random.Random(seed * 15485863 + 12)
    n = 36 if tier == "quick" else 360
    bases = [8, 16, 32, 64, 128, 24, 65, 100, 7, 33]
    for k in range(n):
        r = srnd if k < n * 3 // 4 else rnd
        W = bases[k % len(bases)] if k < 3 * len(bases) else r.choice(NATIVE_BASES + ALL_ARB)
        if W < 4:
            W = 8
        if k % 10 < 3:
            Ls.append(overlapping_layout(r, W, r.randint(3, 6), tag=f"overlapping fields on u{W}"))
        else:
            L = tiled_layout(r, W, complete=(k % 2 == 0), max_fields=7, tag=f"register layout on u{W}")
            for f in L.fields:
                if f.access == "w" and r.random() < 0.5:
                    f.access = "rw"
            Ls.append(L)
    return Ls


def plan_c12(tier, seed):
    Ls = [L for L in c12_layouts(tier, seed) if any(f.writable for f in L.fields)]
    kdeep = 3 if tier == "quick" else 4

    def hs(L):
        out = [h_history(L, 1, "step"), h_history(L, kdeep, f"history{kdeep}")]
        out += h_commute(L)
        return out

    us = units_from(Ls, hs)
    for k, L in enumerate(c12_selfoverlap_layouts()):
        us.append(Unit(f"s{k:05d}", L.decl(), [h_untouched(L, f) for f in L.fields], {"layout": L, "sig": L.sig(), "tag": L.tag, "valid": True}))
    for k in (0, len(Ls) // 2, len(Ls) - 1):
        L = us[k].meta["layout"]
        h = h_history(L, 2, "ctl_history")
        # the model forgets the second write
        idx = h.body.rfind("let op1:")
        h.body = h.body.replace('"VERIF history: final state', '"VERIF history(control): final state')
        h.body = h.body[:idx] + "let m_saved = m;\n" + h.body[idx:].replace('assert!(' + H.raw_of(L, "x") + ' == m, "VERIF history(control)', 'vassume(m != m_saved); let m = m_saved; assert!(' + H.raw_of(L, "x") + ' == m, "VERIF history(control)', 1)
        h.expect, h.family = "control", "control"
        us[k].harnesses.append(h)
    return Plan(us, title="histories are last-write-wins", chunk=120 if tier == "quick" else 300, harness_timeout=600,
                bounds={"histories": f"one step from an ARBITRARY state (closes all finite histories by induction on the single-word state, argument on paper) + direct symbolic histories of length {kdeep}", "ops": "every (field, index, value, with_|set_) chosen by a symbolic selector",
                        "layouts": "%d seeded register layouts (tiled and overlapping fields, all field kinds) on native and arbitrary-int bases" % len(us)},
                assumptions=COMMON_ASSUME + ["induction over history length is a paper argument: the state is exactly the raw word (C06/C11), so single-step agreement from every state implies agreement after any finite history"])


# ------------------------------------------------------------------------------------------------
# C13
def builder_chain(L, b, argname="a"):
    """emit symbolic arguments and return (chain expression, list of (field, [arg vars]))"""
    chain = f"{L.name}::builder()"
    args = []
    for f in L.fields:
        if not f.writable:
            continue
        if f.array:
            vs = []
            for j in range(f.K):
                v = f"{argname}_{f.name}_{j}"
                b += H.val_sym(f.ty, v)
                vs.append(v)
            chain += f".with_{f.name}([{', '.join(vs)}])"
            args.append((f, vs))
        else:
            v = f"{argname}_{f.name}"
            b += H.val_sym(f.ty, v)
            chain += f".with_{f.name}({v})"
            args.append((f, [v]))
    chain += ".build()"
    return chain, args


def h_builder(L, name="builder"):
    b = []
    chain, args = builder_chain(L, b)
    b.append(f"let built: {L.name} = {chain};")
    b.append(f"let mut want: u128 = {L.default_value():#x}u128;")
    for (f, vs) in args:
        for j, v in enumerate(vs):
            b.append(f"want = spec::put(want, {H.rng(f.ranges)}, {j * f.stride}u32, {H.val_bits(f.ty, v)});")
    b.append(f'assert!({H.raw_of(L, "built")} == want, "VERIF builder()...build() != default with every field written");')
    # the same through the with_ chain on DEFAULT / zero (property wording)
    start = f"{L.name}::DEFAULT" if L.default else f"{L.name}::ZERO"
    b.append(f"let mut viaw = {start};")
    for (f, vs) in args:
        for j, v in enumerate(vs):
            b.append(f"viaw = {H.call_with(f, 'viaw', str(j) if f.array else '', v)};")
    b.append(f'assert!({H.raw_of(L, "built")} == {H.raw_of(L, "viaw")}, "VERIF builder != chain of with_ from DEFAULT/zero");')
    b.append("vend!();")
    return Harness(name, "\n".join(b), "pass", "builder", "C13", "", (f"{L.name}::builder", f"Partial{L.name}::with_*", f"Partial{L.name}::build"))


def c13_layouts(tier, seed):
    Ls = []
    srnd = random.Random(1313)
    rnd = random.Random(seed * 32452843 + 13)
    n = 60 if tier == "quick" else 600
    bases = [8, 16, 32, 64, 128, 24, 65, 100, 7, 33, 12, 127]
    for k in range(n):
        r = srnd if k < n * 3 // 4 else rnd
        W = bases[k % len(bases)] if k < 4 * len(bases) else r.choice(NATIVE_BASES + ALL_ARB)
        if W < 3:
            W = 8
        complete = (k % 2 == 0)
        if complete:
            L = tiled_layout(r, W, complete=True, default=None if k % 4 == 0 else ("lit", r.getrandbits(W), "hex"), tag=f"complete cover on u{W}")
            for f in L.fields:
                f.access = r.choice(["rw", "w"]) if L.default is None else f.access
        else:
            d = r.getrandbits(W) | 1 | (1 << (W - 1))
            L = tiled_layout(r, W, complete=False, default=("lit", d, "hex") if k % 3 else ("const", d), tag=f"partial cover with default on u{W}")
        L.legacy = (k % 7 == 0)
        if any(f.writable for f in L.fields):
            Ls.append(L)
    # directed: 16-element arrays, bool arrays, full-width single field, signed, 128-bit
    Ls.append(Layout(64, [Field("a", T_uint(4), [(0, 4)], (16, 4, False), "rw")], tag="16 nibbles fill u64"))
    Ls.append(Layout(16, [Field("a", T_bool(), [(0, 1)], (16, 1, False), "rw")], tag="16 bools fill u16"))
    Ls.append(Layout(128, [Field("f", T_uint(128), [(0, 128)], None, "rw")], tag="single full-width u128 field"))
    Ls.append(Layout(128, [Field("lo", T_int(64), [(0, 64)], None, "rw"), Field("hi", T_int(64), [(64, 64)], None, "rw")], tag="two i64 halves"))
    Ls.append(Layout(32, [Field("s2", T_int(8), [(24, 8)], None, "rw"), Field("s1", T_int(8), [(16, 8)], None, "rw"), Field("s0", T_int(16), [(0, 16)], None, "rw")], tag="signed_masking8and16 shape"))
    Ls.append(Layout(8, [Field("a", T_uint(4), [(0, 1), (2, 1), (4, 1), (6, 1)], (2, 1, True), "rw")], tag="interleaving even/odd array with builder (documented test)"))
    Ls.append(Layout(24, [Field("a", T_uint(8), [(0, 8)], (3, 8, False), "w")], tag="u24 three bytes write-only complete"))
    Ls.append(Layout(9, [Field("r0", T_uint(4), [(0, 4)], None, "r"), Field("w0", T_uint(5), [(4, 5)], None, "w")], default=("lit", 0x1ff, "hex"), tag="read-only gap keeps default bits"))
    for W in (16, 64, 24):
        h = W // 2
        Ls.append(Layout(W, [Field("status", ty_for_width(h, "u1"), [(0, h)], None, "r"), Field("cmd", ty_for_width(h, "u1"), [(0, h)], None, "w"), Field("hi", ty_for_width(W - h, "u1"), [(h, W - h)], None, "rw"), Field("view", T_uint(W), [(0, W)], None, "r")], tag=f"complete writable cover without default plus read-only views of the same bits on u{W}"))
        Ls.append(Layout(W, [Field("cmd", ty_for_width(h, "u1"), [(0, h)], None, "w"), Field("status", ty_for_width(h, "u1"), [(0, h)], None, "r"), Field("hi", ty_for_width(W - h, "u1"), [(h, W - h)], None, "rw")], default=("lit", mask(W) ^ 2, "hex"), tag=f"read-only view overlapping a writable field, default with bits set there, on u{W}"))
    # dense native-integer arrays that do not start at bit 0, in a storage wider than the packed array
    for (W, ety, lo, K) in ((64, T_uint(8), 8, 4), (64, T_int(16), 16, 2), (128, T_uint(32), 32, 3), (32, T_uint(8), 8, 2), (128, T_int(8), 40, 8), (128, T_uint(64), 64, 1 + 0) if False else (128, T_uint(16), 72, 3), (48, T_uint(8), 16, 4), (100, T_int(32), 20, 2)):
        Ls.append(Layout(W, [Field("lo", ty_for_width(lo, "u1"), [(0, lo)], None, "rw"), Field("a", ety, [(lo, ety.width)], (K, ety.width, False), "rw")], default=("lit", mask(W) ^ (1 << (W - 1)), "hex"), tag=f"dense [{ety.decl_ty()}; {K}] starting at bit {lo} of u{W}"))
    # arrays with more than 16 elements
    Ls.append(Layout(32, [Field("a", T_bool(), [(0, 1)], (32, 1, False), "rw")], tag="[bool; 32] fills u32"))
    Ls.append(Layout(64, [Field("a", T_uint(2), [(4, 2)], (20, 3, True), "rw")], default=("lit", mask(64), "hex"), tag="[u2; 20] stride 3 on u64 with default all ones"))
    Ls.append(Layout(128, [Field("a", T_uint(4), [(0, 4)], (24, 5, True), "rw"), Field("t", T_bool(), [(127, 1)], None, "rw")], default=("lit", 1 << 126, "hex"), tag="[u4; 24] stride 5 on u128"))
    Ls.append(Layout(128, [Field("lo", T_uint(40), [(0, 40)], None, "rw"), Field("a", T_uint(16), [(40, 16)], (4, 16, False), "rw")], default=("lit", mask(128), "hex"), tag="[u16; 4] starting at bit 40 of u128 (an element straddles bit 64)"))
    Ls.append(Layout(128, [Field("a", T_int(8), [(12, 8)], (5, 24, True), "rw")], default=("lit", 1 << 127, "hex"), tag="[i8; 5] stride 24 from bit 12 of u128 (an element straddles bit 64)"))
    # strided arrays with gap bits: K * stride == base width, other fields / default bits live in the gaps
    for W in NATIVE_BASES + [24, 48, 100]:
        for w in (1, 4, 8):
            s_ = 2 * w
            if W % s_ or W // s_ < 2 or W // s_ > 16:
                continue
            K = W // s_
            ety = ty_for_width(w)
            ones = ("lit", mask(W), "hex")
            Ls.append(Layout(W, [Field("a", ety, [(0, w)], (K, s_, True), "rw")], default=ones, tag=f"strided array from bit 0, K*stride == {W}, default all ones (gap bits set) on u{W}"))
            Ls.append(Layout(W, [Field("odd", ety, [(w, w)], (K, s_, True), "rw"), Field("even", ety, [(0, w)], (K, s_, True), "rw")], tag=f"two interleaved strided arrays, upper one declared first, complete, on u{W}"))
            Ls.append(Layout(W, [Field("even", ety, [(0, w)], (K, s_, True), "w"), Field("odd", ety, [(w, w)], (K, s_, True), "rw")], default=("lit", mask(W) ^ 0x5, "hex"), tag=f"two interleaved strided arrays, lower one first, with default, on u{W}"))
        if W >= 16:
            h = W // 2
            Ls.append(Layout(W, [Field("top", T_uint(h // 2), [(h + h // 2, h // 2)], None, "rw"), Field("a", T_uint(h // 2), [(0, h // 2)], (2, h, True), "rw")], default=ones, tag=f"scalar in a gap declared before the strided array on u{W}"))
    return Ls


def many_field_layouts():
    """structs with 9 / 17 / 33 / 65 writable fields (one more than 8, 16, 32, 64): complete covers
    without default and partial covers with a default"""
    Ls = []
    for (n, W) in ((9, 16), (17, 32), (33, 64), (65, 128), (17, 24), (33, 100)):
        fs = [Field(f"b{k}", T_bool() if k % 3 else T_uint(1), [(k, 1)], None, "rw" if k % 5 else "w") for k in range(n)]
        Ls.append(Layout(W, fs, default=("lit", mask(W) ^ 0x2, "hex"), tag=f"{n} one-bit fields on u{W} with a default"))
        fs2 = [Field(f"b{k}", T_bool(), [(k, 1)], None, "rw") for k in range(n - 1)] + [Field("rest", ty_for_width(W - n + 1, "u1"), [(n - 1, W - n + 1)], None, "rw")]
        Ls.append(Layout(W, fs2, tag=f"{n} fields covering u{W} completely, no default"))
    return Ls


def plan_c13(tier, seed):
    Ls = [L for L in c13_layouts(tier, seed) + many_field_layouts() + surface_layouts() if L.builder_expected()]
    us = units_from(Ls, lambda L: [h_builder(L)])
    for k in (0, len(us) // 2, len(us) - 1):
        L = us[k].meta["layout"]
        h = h_builder(L, "ctl_builder")
        h.body = h.body.replace('== want, "VERIF builder()...build() != default', '== (want ^ 1u128), "VERIF builder()...build() != default', 1)
        h.expect, h.family = "control", "control"
        us[k].harnesses.append(h)
    return Plan(us, title="builder == default with every field written", chunk=60 if tier == "quick" else 150, harness_timeout=600,
                bounds={"inputs": "all argument tuples (arrays as K symbolic elements)", "layouts": "%d builder-eligible layouts: complete cover without default, partial cover with literal/constant default (bits outside every field set), arrays up to 16 elements, lists, signed, enum, custom, arbitrary-int bases, write-only and read-only fields" % len(us)},
                assumptions=COMMON_ASSUME)


PLANS.update({"C12": plan_c12, "C13": plan_c13})


# ------------------------------------------------------------------------------------------------
# C11
C11_PRE = """#[inline(always)]
pub fn vstorage(x: &S) -> Option<u128> {
    // the single storage word, read directly (C06 pins the size); a representation change degrades
    // the check to its observational form instead of breaking the build
    if core::mem::size_of::<S>() == core::mem::size_of::<VStorage>() && core::mem::align_of::<S>() == core::mem::align_of::<VStorage>() {
        Some(unsafe { core::ptr::read(x as *const S as *const VStorage) } as u128)
    } else { None }
}"""


def c11_register_layouts(N, tier, rnd):
    Ls = []
    top = mask(N)
    if N == 1:
        Ls.append(Layout(1, [Field("b", T_bool(), [(0, 1)], None, "rw")], tag="u1 single bool"))
        Ls.append(Layout(1, [Field("b", T_uint(1), [(0, 1)], None, "rw")], default=("lit", 1, "dec"), tag="u1 single u1 with default"))
        return Ls
    # A: bool at 0 + top field ending exactly at N-1 (complete: builder offered)
    fs = [Field("b0", T_bool(), [(0, 1)], None, "rw"), Field("top", ty_for_width(N - 1, "u1"), [(1, N - 1)], None, "rw")]
    Ls.append(Layout(N, fs, tag=f"u{N}: bool + top field ending at bit {N - 1} (complete)"))
    # B: full-width field + top bit bool (overlapping), default all ones
    fs = [Field("all", T_uint(N), [(0, N)], None, "rw"), Field("t", T_bool(), [(N - 1, 1)], None, "rw")]
    Ls.append(Layout(N, fs, default=("lit", top, "hex"), tag=f"u{N}: full-width field and top-bit bool, default all ones"))
    if N >= 4:
        w = 2 if N >= 8 else 1
        K = min(N // w, 8)
        lo = N - K * w
        fs = [Field("a", ty_for_width(w), [(lo, w)], (K, w, False), "rw"), Field("l", T_uint(2), [(N - 1, 1), (0, 1)], None, "rw")]
        Ls.append(Layout(N, fs, tag=f"u{N}: array filling exactly to bit {N - 1} + list touching bit {N - 1}"))
    if N >= 9:
        K = 3
        s_ = (N - 3) // K
        if s_ >= 3:
            fs = [Field("al", T_uint(2), [(N - (K - 1) * s_ - 3, 1), (N - (K - 1) * s_ - 1, 1)], (K, s_, True), "rw")]
            Ls.append(Layout(N, fs, default=("lit", top, "hex"), tag=f"u{N}: array of range lists whose last element ends at bit {N - 1}"))
    for w in NATIVE:
        if w < N:
            fs = [Field("hi", T_uint(w), [(N - w, w)], None, "rw"), Field("s", T_int(w), [(N - w, w)], None, "rw"), Field("lo", ty_for_width(N - w), [(0, N - w)], None, "rw")]
            Ls.append(Layout(N, fs, default=("lit", top ^ 1, "hex"), tag=f"u{N}: native u{w}/i{w} field at the top"))
            if tier == "quick":
                break
    if N >= 6:
        s = 3
        K = (N - 2) // s + 1
        lo = N - ((K - 1) * s + 2)
        if K >= 2:
            fs = [Field("g", T_uint(2), [(lo, 2)], (K, s, True), "rw")]
            Ls.append(Layout(N, fs, default=("lit", top, "hex"), tag=f"u{N}: stride-3 array whose last element ends at bit {N - 1}"))
    if N >= 3:
        e = sparse_enum("E0", 2, [0, 3], None)
        fs = [Field("e", FType("optenum", 2, e), [(N - 2, 2)], None, "rw"), Field("c", FType("custom", N - 2 if N - 2 >= 1 else 1, None, "Cust1"), [(0, N - 2)], None, "rw")]
        Ls.append(Layout(N, fs, aux=[e, custom_decl("Cust1", N - 2)], tag=f"u{N}: Option<enum> at the top + custom-typed rest"))
    return Ls


def h_c11_base(L):
    S = L.name
    b = H.raw_sym(L)
    b.append(f"let x = {S}::new_with_raw_value(r);")
    b.append('if let Some(s) = vstorage(&x) { assert!(s == r128, "VERIF storage after new_with_raw_value != value"); }')
    b.append(f'if let Some(s) = vstorage(&{S}::ZERO) {{ assert!(s == 0, "VERIF storage of ZERO"); }}')
    if L.default:
        b.append(f'if let Some(s) = vstorage(&{S}::DEFAULT) {{ assert!(s <= {mask(L.base):#x}u128, "VERIF DEFAULT carries state above bit N-1"); assert!(s == {L.default_value():#x}u128, "VERIF storage of DEFAULT"); assert!({H.raw_of(L, S + "::DEFAULT")} == s, "VERIF raw_value() of DEFAULT hides state"); }}')
        b.append(f'if let Some(s) = vstorage(&<{S} as Default>::default()) {{ assert!(s <= {mask(L.base):#x}u128, "VERIF Default::default() carries state above bit N-1"); }}')
    b.append(f'assert!({H.raw_of(L, "x")} == r128, "VERIF raw_value() != state");')
    b.append('vcover!(vstorage(&x).is_some(), "VERIF-REACH-storage-readable");')
    b.append("vend!();")
    return Harness("base", "\n".join(b), "pass", "invariant_base", "C11", "", (f"{S}::new_with_raw_value", f"{S}::raw_value"))


def h_c11_builder(L):
    S = L.name
    b = []
    chain, args = builder_chain(L, b)
    b.append(f"let y: {S} = {chain};")
    b.append(f'if let Some(s) = vstorage(&y) {{ assert!(s <= {mask(L.base):#x}u128, "VERIF builder created state above bit N-1"); assert!({H.raw_of(L, "y")} == s, "VERIF raw_value() hides state"); }}')
    b.append("vend!();")
    return Harness("inv_builder", "\n".join(b), "pass", "invariant_builder", "C11", "", (f"{S}::builder",))


def h_c11_step(L, f):
    S = L.name
    b = H.raw_sym(L)
    b.append(f"let x = {S}::new_with_raw_value(r);")
    il, i, sh = H.idx_lines(f)
    b += il
    b += H.val_sym(f.ty, "v")
    b.append(f"let mut y = {H.call_with(f, 'x', i, 'v')};")
    b.append("let via_set: bool = vany();")
    b.append("if via_set { y = x; " + H.call_set(f, "y", i, "v") + " }")
    b.append(f'if let Some(s) = vstorage(&y) {{ assert!(s <= {mask(L.base):#x}u128, "VERIF write created state above bit N-1"); }}')
    b.append(f"let rv: u{L.base} = y.raw_value();")
    b.append(f'if let Some(s) = vstorage(&y) {{ assert!({H.uint_u128(L.base, "rv")} == s, "VERIF raw_value() does not show the whole state"); }}')
    b.append(f"let z = {S}::new_with_raw_value(rv);")
    b.append('if let (Some(a), Some(c)) = (vstorage(&y), vstorage(&z)) { assert!(a == c, "VERIF re-wrapped value has different storage"); }')
    # observational: every getter agrees on y and z; a further write agrees too
    for g in L.fields:
        if not g.readable:
            continue
        if g.array:
            b.append(f"let j_{g.name}: usize = vany(); vassume(j_{g.name} < {g.K});")
            j = f"j_{g.name}"
        else:
            j = ""
        b.append(f'assert!({H.val_bits(g.ty, H.call_get(g, "y", j)) if g.ty.kind != "optenum" else "vres_bits(" + H.call_get(g, "y", j) + ")"} == {H.val_bits(g.ty, H.call_get(g, "z", j)) if g.ty.kind != "optenum" else "vres_bits(" + H.call_get(g, "z", j) + ")"}, "VERIF getter {g.name} distinguishes x from new_with_raw_value(x.raw_value())");')
    b += H.val_sym(f.ty, "v2")
    b.append(f'assert!({H.raw_of(L, H.call_with(f, "y", i, "v2"))} == {H.raw_of(L, H.call_with(f, "z", i, "v2"))}, "VERIF a second write distinguishes x from its re-wrapped raw value");')
    b.append("vend!();")
    return Harness(f"step_{f.name}", "\n".join(b), "pass", "invariant_step", "C11", f.name, (f"{S}::with_{f.name}", f"{S}::set_{f.name}", f"{S}::raw_value", f"{S}::new_with_raw_value"))


VRES = """pub fn vres_bits<T: Copy, P: Copy + Into<u128>>(r: Result<T, P>) -> u128 where T: VEnumBits { match r { Ok(e) => e.vbits(), Err(p) => (1u128 << 100) | p.into() } }
pub trait VEnumBits { fn vbits(self) -> u128; }"""


def plan_c11(tier, seed):
    rnd = random.Random(seed + 11)
    bases = QUICK_ARB if tier == "quick" else ALL_ARB
    us = []
    n = 0
    for N in bases:
        for L in c11_register_layouts(N, tier, rnd):
            hs = [h_c11_base(L)]
            for f in L.fields:
                if f.writable:
                    hs.append(h_c11_step(L, f))
                    if f.array:
                        # an out-of-range index must not be a way to reach the hidden storage bits
                        hs += [H.h_oob(L, f, "C11", "with"), H.h_oob(L, f, "C11", "set")]
            if L.builder_expected():
                hs.append(h_c11_builder(L))
            pre = f"pub type VStorage = u{L.storage};\n" + VRES
            for a in L.aux:
                if isinstance(a, EnumDef):
                    pre += f"\nimpl VEnumBits for {a.name} {{ fn vbits(self) -> u128 {{ self as u128 }} }}"
            u = Unit(f"l{n:05d}", L.decl() + "\n" + C11_PRE, hs, {"layout": L, "sig": L.sig(), "tag": L.tag, "valid": True}, pre)
            us.append(u)
            n += 1
    # declarations that reach above bit N-1 (rule-invalid): if the macro accepts one, the same step
    # harness decides whether hidden state can be created
    cand = []
    for N in ([7, 9, 20, 24, 33, 65] if tier == "quick" else [n for n in ALL_ARB if n >= 6][::5] + [20, 24]):
        st = storage_bits(N)
        cand.append(Layout(N, [Field("f", T_bool(), [(N, 1)], None, "rw"), Field("lo", T_uint(2), [(0, 2)], None, "rw")], tag=f"bool at bit {N} of u{N} (single-bit syntax)"))
        if st - N >= 2:
            cand.append(Layout(N, [Field("f", ty_for_width(st - N, "u1"), [(N, st - N)], None, "rw")], tag=f"field in the hidden storage bits of u{N}"))
            cand.append(Layout(N, [Field("f", T_uint(2), [(N - 1, 2)], None, "rw")], tag=f"u2 straddling bit {N - 1}/{N} of u{N}"))
            cand.append(Layout(N, [Field("f", T_uint(3), [(0, 1), (N - 1, 1), (N + 1, 1)], None, "rw")], tag=f"list with a single-bit item above bit {N - 1} of u{N}"))
            up = min(4, st - N)
            if N >= 12 and N + up + 4 <= 128:
                cand.append(Layout(N, [Field("f", T_uint(N + up + 4), [(0, N + up), (8, 4)], None, "rw")], tag=f"overlapping list [0..={N + up - 1}, 8..=11] on u{N}: the entry that starts lower reaches above bit {N - 1}"))
                cand.append(Layout(N, [Field("f", T_uint(N + up), [(0, 4), (4, N + up - 4)], None, "rw")], tag=f"list [0..=3, 4..={N + up - 1}] on u{N}: the LAST entry reaches above bit {N - 1}"))
            if N >= 9:
                cand.append(Layout(N, [Field("f", T_uint(8), [(N - 4, 4)], None, "rw")], tag=f"u8 over the top 4 bits of u{N} (type wider than the range)"))
                cand.append(Layout(N, [Field("f", T_int(16), [(N - 8, 8)], None, "rw"), Field("lo", T_bool(), [(0, 1)], None, "rw")], tag=f"i16 over the top 8 bits of u{N} (type wider than the range)"))
            e_ = full_enum("E2", 2)
            cand.append(Layout(N, [Field("f", FType("enum", 2, e_), [(N - 1, 2)], None, "rw"), Field("lo", T_bool(), [(0, 1)], None, "rw")], aux=[e_], tag=f"2-bit enum at bits {N - 1}..={N} of u{N}"))
            cand.append(Layout(N, [Field("f", FType("nested", st - N, None, "Inner"), [(N, st - N)], None, "rw")], aux=[nested_decl("Inner", st - N)], tag=f"nested bitfield in the hidden storage bits of u{N}"))
            cand.append(Layout(N, [Field("f", T_uint(2), [(0, 1), (2, 1)], (2, N - 2, True), "rw")], tag=f"array of lists with gaps reaching bit {N} of u{N}"))
            cand.append(Layout(N, [Field("f", T_uint(2), [(N - 3, 2)], (2, 2, False), "rw")], tag=f"[u2;2] ending at bit {N} of u{N}"))
    for N in ([7, 14, 24, 33, 65] if tier == "quick" else [n for n in ALL_ARB if n >= 3][::6]):
        st = storage_bits(N)
        cand.append(Layout(N, [Field("lo", T_uint(2), [(0, 2)], None, "rw"), Field("t", T_bool(), [(N - 1, 1)], None, "rw")], default=("const", (1 << (st - 1)) | (1 << N) | 1), tag=f"u{N}: named-constant default with bits above bit {N - 1} (inside the u{st} storage)"))
        cand.append(Layout(N, [Field("lo", T_uint(2), [(0, 2)], None, "rw")], default=("lit", mask(st), "hex"), tag=f"u{N}: literal default filling the whole u{st} storage"))
    for L in cand:
        assert not L.rule_valid(), L.tag
        hs = [h_c11_base(L)] + [h_c11_step(L, f) for f in L.fields if f.writable]
        for h in hs:
            h.role = "field-above-exposed-width"
        pre = f"pub type VStorage = u{L.storage};\n" + VRES
        for a in L.aux:
            if isinstance(a, EnumDef):
                pre += f"\nimpl VEnumBits for {a.name} {{ fn vbits(self) -> u128 {{ self as u128 }} }}"
        us.append(Unit(f"l{n:05d}", L.decl() + "\n" + C11_PRE, hs, {"layout": L, "sig": L.sig(), "tag": L.tag, "valid": False, "role": "field-above-exposed-width"}, pre))
        n += 1
    nvalid = len(us) - len(cand)
    for k in (0, nvalid // 2, nvalid - 1):
        L = us[k].meta["layout"]
        f = [f for f in L.fields if f.writable][0]
        h = h_c11_step(L, f)
        h.name, h.expect, h.family = "ctl_step", "control", "control"
        h.body = h.body.replace(f"assert!(s <= {mask(L.base):#x}u128, \"VERIF write created", f"assert!(s < {mask(L.base):#x}u128, \"VERIF write created", 1)
        us[k].harnesses.append(h)
    return Plan(us, title="arbitrary-int bases are N-bit registers", chunk=200 if tier == "quick" else 500,
                bounds={"induction": "base (new_with_raw_value / ZERO / DEFAULT / builder give storage < 2^N) and step (every with_/set_ of every field from every state < 2^N keeps storage < 2^N and raw_value() shows it all) are solver queries per layout; the induction itself is a paper argument",
                        "bases": "%d arbitrary-int widths" % len(bases), "layouts": "register-like layouts whose top field / last array element / list item ends exactly at bit N-1, native-typed and signed fields at the top, Option<enum> and custom types"},
                assumptions=COMMON_ASSUME + ["the storage word is read through a pointer cast guarded by a size/alignment test (harness-side unsafe only); if the representation changed the check degrades to its observational clauses"])


# ------------------------------------------------------------------------------------------------
# C16
def c16_layouts(tier, seed):
    Ls = []
    bases = NATIVE_BASES + (QUICK_ARB if tier == "quick" else ALL_ARB)
    for W in bases:
        st = storage_bits(W)
        fs = []
        # full width and full-width-minus-one on every storage size, top-bit bools, native at top
        cands = [(0, W), (0, W - 1), (1, W - 1), (W - 1, 1), (0, 1)]
        for w in NATIVE:
            if w <= W:
                cands += [(W - w, w), (0, w)]
        seen = []
        for (lo, n) in cands:
            if n >= 1 and (lo, n) not in seen:
                seen.append((lo, n))
        fields = []
        for (lo, n) in seen:
            for ty in (elem_type_variants(n) if n > 1 else [T_bool(), T_uint(1)]):
                fields.append(Field("f", ty, [(lo, n)], None, "rw"))
        Ls += pack(W, fields, per=5, tag=f"boundary fields on u{W}")
        # arrays that end on the top bit
        for x in fill_shapes(W)[: (6 if tier == "quick" else 40)]:
            for ty in elem_type_variants(x[1])[:2]:
                Ls.append(Layout(W, [array_field(*x, ty=ty)], tag=f"array ending at top of u{W}: {x}"))
        # lists with a 64-bit member / touching the top
        if W >= 66:
            Ls.append(Layout(W, [Field("f", T_uint(65), [(W - 64, 64), (0, 1)], None, "rw")], tag=f"list with 64-bit member on u{W}"))
            Ls.append(Layout(W, [Field("f", T_uint(64), [(W - 32, 32), (0, 32)], None, "rw"), Field("g", T_int(64), [(0, 32), (W - 32, 32)], None, "rw")], tag=f"64-bit lists on u{W}"))
        if W >= 4:
            Ls.append(Layout(W, [Field("f", T_uint(2), [(W - 1, 1), (0, 1)], None, "rw"), Field("a", T_uint(2), [(0, 1), (W // 2, 1)], (2, 1, True), "rw")], tag=f"list touching top + array of lists on u{W}"))
        if W >= 16:
            K = min(W // 8, 4)
            Ls.append(Layout(W, [Field("a", T_uint(8), [(4, 4), (0, 4)], (K, 8, True), "rw"), Field("b", T_uint(4), [(3, 1), (2, 1), (1, 1), (0, 1)], (K, W // K, True), "rw")], tag=f"arrays of DESCENDING range lists on u{W}"))
            Ls.append(Layout(W, [Field("v", T_uint(8), [(0, 4), (8, 4)], (3, 0, True), "rw"), Field("w", T_uint(2), [(W - 1, 1), (W - 3, 1)], (2, 0, True), "rw")], tag=f"range-list arrays with stride 0 on u{W}"))
        # range lists of native-typed fields split at the extreme sizes: (n-1 | 1), (1 | n-1), halves;
        # signed and unsigned; the first piece at bit 0, the last ending on the top bit when it fits
        for n in NATIVE:
            if n > W or (tier == "quick" and W not in NATIVE_BASES + [24, 65, 127]):
                continue
            for (a_, b_) in ((n - 1, 1), (1, n - 1), (n // 2, n - n // 2)):
                if W - n >= 1:
                    rs = [(0, a_), (W - b_, b_)]
                    rs2 = [(W - b_, b_), (0, a_)]
                else:
                    rs = [(0, a_), (a_, b_)]
                    rs2 = [(a_, b_), (0, a_)] if False else [(b_, a_), (0, b_)]
                for ty in (T_int(n), T_uint(n)):
                    Ls.append(Layout(W, [Field("f", ty, rs, None, "rw"), Field("g", ty, rs2, None, "rw")], tag=f"{ty.decl_ty()} split {a_}|{b_} as range lists on u{W}"))
        # literal and named-constant defaults (the macro-time range check of the literal must not trip)
        if tier != "quick" or W in NATIVE_BASES + [24, 65, 100, 127]:
            Ls.append(Layout(W, [Field("f", T_uint(W), [(0, W)], None, "rw")], default=("lit", mask(W), "hex"), tag=f"all-ones literal default on u{W}"))
            Ls.append(Layout(W, [Field("t", T_bool(), [(W - 1, 1)], None, "rw")], default=("lit", 1 << (W - 1), "hex_" if W >= 8 else "bin"), tag=f"top-bit literal default on u{W}"))
            Ls.append(Layout(W, [Field("b", T_bool(), [(0, 1)], None, "rw")], default=("lit", 1, "dec"), tag=f"default = 1 on u{W}"))
            Ls.append(Layout(W, [Field("b", T_bool(), [(0, 1)], None, "rw")], default=("const", mask(W) ^ 1), tag=f"named-constant default on u{W}"))
        if W == 128:
            Ls.append(Layout(W, [Field("f", T_uint(128), [(64, 64), (0, 64)], None, "rw")], tag="128-bit swapped halves"))
            Ls.append(Layout(W, [Field("f", T_int(128), [(0, 128)], None, "rw")], tag="i128 full width"))
    return Ls


def h_total_builder(L):
    b = []
    chain, args = builder_chain(L, b)
    b.append(f"let y: {L.name} = {chain};")
    b.append("let _r = y.raw_value();")
    b.append("vend!();")
    return Harness("total_builder", "\n".join(b), "pass", "total_builder", "C16", "", (f"{L.name}::builder", "Partial*::with_*", "build"))


def plan_c16(tier, seed):
    Ls = c16_layouts(tier, seed)
    # complete single-field / tiled layouts get their builder exercised too
    srnd = random.Random(1616)
    for W in NATIVE_BASES + [24, 65, 127]:
        Ls.append(tiled_layout(srnd, W, complete=True, tag=f"tiled complete layout on u{W} (builder steps)"))
        Ls.append(Layout(W, [Field("f", T_uint(W), [(0, W)], None, "rw")], tag=f"single full-width field on u{W} (builder)"))

    def hs(L):
        out = [H.h_total(L, f, "C16") for f in L.fields]
        for f in L.fields:
            if f.array:
                out += [H.h_oob(L, f, "C16", op) for op in ((("get",) if f.readable else ()) + (("with", "set") if f.writable else ()))]
        if L.builder_expected() and any(f.writable for f in L.fields):
            out.append(h_total_builder(L))
        return out

    us = units_from(Ls, hs)
    # read-only range lists that name bits twice and are, in total, wider than the storage integer: accepted
    # by the documented rules (type width == bits listed, all bits inside the base), but see known_findings.txt
    wide = []
    for (W, n) in ((8, 8), (32, 32), (16, 8)):
        wide.append(Layout(W, [Field("x", T_uint(2 * n), [(0, n), (0, n)], None, "r")], tag=f"read-only list [0..={n - 1}, 0..={n - 1}] typed u{2 * n} on u{W}"))
    for k, L in enumerate(wide):
        if storage_bits(L.base) >= 2 * L.fields[0].ranges[0][1]:
            continue
        h = H.h_total(L, L.fields[0], "C16")
        h.role = "self-overlapping-list-wider-than-storage"
        us.append(Unit(f"w{k:05d}", L.decl(), [h], {"layout": L, "sig": L.sig(), "tag": L.tag, "valid": True, "role": "self-overlapping-list-wider-than-storage"}))
    for k, L in enumerate(c12_selfoverlap_layouts()):
        us.append(Unit(f"v{k:05d}", L.decl(), [H.h_total(L, f, "C16") for f in L.fields], {"layout": L, "sig": L.sig(), "tag": L.tag, "valid": True}))
    # controls: an out-of-range index admitted, and a deliberately overflowing harness expression
    done = 0
    for u in us:
        L = u.meta["layout"]
        for f in L.fields:
            if f.array and f.readable and done < 2:
                u.harnesses.append(H.ctl_oob(L, f, "C16", "get"))
                done += 1
                break
    L0 = us[0].meta["layout"]
    h = H.h_total(L0, L0.fields[0], "C16")
    h.name, h.expect, h.family = "ctl_total", "control", "control"
    h.body = h.body.replace("vend!();", 'let sh: u32 = vany(); vassume(sh <= 128); assert!(sh < 128, "VERIF control"); let _q = 1u128 << sh;\nvend!();')
    us[0].harnesses.append(h)
    return Plan(us, title="total and profile independent", chunk=230 if tier == "quick" else 600,
                bounds={"inputs": "all raw values, field values and in-range indices; all out-of-range indices for the permitted panic", "checks": "every CBMC property of the reached functions: arithmetic overflow, shift overflow, assert!, unreachable!, UInt::new / extract_uN assertions, pointer checks",
                        "layouts": "boundary corpus: full-width and full-width-minus-one fields on every storage size, top-bit bools, native and signed fields at the top, arrays ending on the top bit, lists with a 64-bit member, 128-bit fields, builder steps on complete layouts",
                        "profiles": "Kani models the dev profile (overflow checks + debug assertions ON). That no overflow check can fire implies wrapping and checked arithmetic agree on every input, so results are profile independent (argument); every counterexample is replayed natively in dev AND release"},
                assumptions=COMMON_ASSUME + ["profile independence is concluded from the absence of any reachable overflow/debug-assertion failure, not from a second solve (Kani always checks overflow)"])


PLANS.update({"C11": plan_c11, "C16": plan_c16})


# ------------------------------------------------------------------------------------------------
# C09: accepted => sound, for declarations the rules call invalid
def inbase_positions(L, f, idx):
    """well-formed declared positions of element idx that lie inside the base"""
    out = []
    for (lo, n) in f.ranges:
        for k in range(max(n, 0)):
            p = lo + idx * f.stride + k
            if p < L.base:
                out.append(p)
    return out


def allones_expr(ft, g):
    if ft.kind == "bool":
        return f"({g} == true)"
    if ft.kind == "int":
        return f"({g} == -1)"
    if ft.kind == "uint":
        return f"({H.uint_u128(ft.width, g)} == {mask(ft.width):#x}u128)"
    return "true"


def h_sound(L, f, role):
    """soundness spec S1..S5 for one field of an accepted declaration"""
    hs = []
    S = L.name
    # S1: total
    t = H.h_total(L, f, "C09")
    t.name, t.family, t.role = f"s1_total_{f.name}", "sound_total", role
    hs.append(t)
    # S2: the getter can show every value of its type (all-ones reachable)
    if f.readable and f.ty.kind in ("bool", "uint", "int"):
        b = H.raw_sym(L)
        b.append(f"let x = {S}::new_with_raw_value(r);")
        il, i, sh = H.idx_lines(f)
        b += il
        b.append(f"let g = {H.call_get(f, 'x', i)};")
        b.append(f'vcover!({allones_expr(f.ty, "g")}, "VERIF-REACH-allones");')
        b.append("vend!();")
        hs.append(Harness(f"s2_range_{f.name}", "\n".join(b), "reach", "sound_getter_range", "C09", f.name, (), reach=("VERIF-REACH-allones",), role=role))
    if f.writable:
        # S3 + S4a + S5
        b = H.raw_sym(L)
        b.append(f"let x = {S}::new_with_raw_value(r);")
        il, i, sh = H.idx_lines(f)
        b += il
        b += H.val_sym(f.ty, "v1")
        b += H.val_sym(f.ty, "v2")
        b.append(f"let y1 = {H.call_with(f, 'x', i, 'v1')};")
        b.append(f"let y2 = {H.call_with(f, 'x', i, 'v2')};")
        if f.readable:
            b.append(f"let g = {H.call_get(f, 'y1', i)};")
            b += H.getter_eq_value(f.ty, "g", "v1", f"VERIF with_{f.name}(v) then {f.name}() is not v (truncation)")
        b.append(f'if {H.raw_of(L, "y1")} == {H.raw_of(L, "y2")} {{ assert!({H.val_bits(f.ty, "v1")} == {H.val_bits(f.ty, "v2")}, "VERIF two different values are stored identically (truncation / aliasing)"); }}')
        # S4a: nothing outside the element's well-formed in-base positions changes
        if f.array:
            K = f.K
            arms = " ".join(f"{k} => {sum(1 << p for p in inbase_positions(L, f, k)):#x}u128," for k in range(K - 1)) + f" _ => {sum(1 << p for p in inbase_positions(L, f, K - 1)):#x}u128,"
            b.append(f"let m: u128 = match i {{ {arms} }};")
        else:
            b.append(f"let m: u128 = {sum(1 << p for p in inbase_positions(L, f, 0)):#x}u128;")
        b.append(f'assert!((({H.raw_of(L, "y1")}) ^ r128) & !m == 0, "VERIF a write changed a bit outside the declared positions of the field (aliasing)");')
        if not L.native:
            b.append(f"let z = {S}::new_with_raw_value(y1.raw_value());")
            b += H.val_sym(f.ty, "v3")
            b.append(f'assert!({H.raw_of(L, H.call_with(f, "y1", i, "v3"))} == {H.raw_of(L, H.call_with(f, "z", i, "v3"))}, "VERIF hidden state above the declared base width");')
            if f.readable:
                b.append(f'assert!({H.val_bits(f.ty, H.call_get(f, "y1", i))} == {H.val_bits(f.ty, H.call_get(f, "z", i))}, "VERIF getter sees state that raw_value() does not show");')
        b.append("vend!();")
        hs.append(Harness(f"s3_write_{f.name}", "\n".join(b), "pass", "sound_write", "C09", f.name, (), role=role))
        # S4b: every declared in-base position is driven by the value
        pos = inbase_positions(L, f, 0)
        if pos and len(pos) <= 128:
            b = H.raw_sym(L)
            b.append(f"let x = {S}::new_with_raw_value(r);")
            b += H.val_sym(f.ty, "v1")
            b += H.val_sym(f.ty, "v2")
            i0 = "0" if f.array else ""
            b.append(f"let d: u128 = {H.raw_of(L, H.call_with(f, 'x', i0, 'v1'))} ^ {H.raw_of(L, H.call_with(f, 'x', i0, 'v2'))};")
            labels = []
            for p in pos:
                lab = f"VERIF-REACH-driven-bit{p}"
                b.append(f'vcover!((d >> {p}) & 1 == 1, "{lab}");')
                labels.append(lab)
            b.append("vend!();")
            hs.append(Harness(f"s4_driven_{f.name}", "\n".join(b), "reach", "sound_positions_driven", "C09", f.name, (), reach=tuple(labels), role=role))
    return hs


def c09_candidates(tier):
    """(Layout, role) just-outside candidates; every one is rule-invalid"""
    C = []

    def add(W, fields, role, tag, **kw):
        L = Layout(W, fields, tag=tag, **kw)
        assert not L.rule_valid(), (tag, L.decl())
        C.append((L, role))

    nat = [8, 16, 32, 64, 128]
    arbs = [7, 9, 24, 33, 65, 100] if tier == "quick" else [n for n in ALL_ARB if n >= 3][::4] + [24, 127]
    # 1. type width != selected bits
    for W in (8, 32, 128, 24):
        add(W, [Field("f", T_uint(5), [(0, 6)], None, "rw")], "type-width-mismatch", f"u5 over 6 bits on u{W}")
        add(W, [Field("f", T_uint(5), [(1, 4)], None, "rw")], "type-width-mismatch", f"u5 over 4 bits on u{W}")
        add(W, [Field("f", T_bool(), [(2, 2)], None, "rw")], "type-width-mismatch", f"bool over 2 bits on u{W}")
        add(W, [Field("f", T_uint(4), [(0, 3)], (2, 4, True), "rw")], "type-width-mismatch", f"[u4;2] over 3-bit elements on u{W}")
        add(W, [Field("f", T_uint(6), [(0, 2), (4, 3)], None, "rw")], "type-width-mismatch", f"u6 over a 5-bit list on u{W}")
        add(W, [Field("f", T_bool(), [(0, 1), (3, 1)], None, "rw", form="list")], "type-width-mismatch", f"bool over a two-item list on u{W}")
    for W in (16, 32, 24, 128):
        # lists that name a bit twice: the width is the SUM of the entries, not the number of distinct bits
        add(W, [Field("f", T_uint(8), [(0, 8), (6, 2)], None, "rw")], "type-width-mismatch-overlapping-list", f"u8 over [0..=7, 6..=7] (10 listed bits, 8 distinct) on u{W}")
        add(W, [Field("f", T_uint(6), [(0, 4), (2, 4)], None, "rw")], "type-width-mismatch-overlapping-list", f"u6 over [0..=3, 2..=5] (8 listed bits, 6 distinct) on u{W}")
        add(W, [Field("f", T_uint(1), [(5, 1), (5, 1)], None, "r")], "type-width-mismatch-overlapping-list", f"read-only u1 over [5, 5] on u{W}")
        add(W, [Field("f", T_uint(3), [(0, 2), (1, 2)], (2, 4, True), "rw")], "type-width-mismatch-overlapping-list", f"[u3; 2] over [0..=1, 1..=2] on u{W}")
    for W in (16, 64, 24):
        add(W, [Field("f", T_uint(8), [(0, 7)], None, "rw")], "type-width-mismatch", f"u8 over 7 bits on u{W}")
        add(W, [Field("f", T_uint(8), [(2, 9)], None, "rw")], "type-width-mismatch", f"u8 over 9 bits on u{W}")
        add(W, [Field("f", T_int(16), [(0, 8)], None, "rw")], "type-width-mismatch", f"i16 over 8 bits on u{W}")
        add(W, [Field("f", T_uint(1), [(0, 2)], None, "rw")], "type-width-mismatch", f"u1 over 2 bits on u{W}")
    # arrays whose NATIVE element type is wider than the element's bits while the explicit stride is as wide as the type
    for W in (32, 64, 24, 48):
        add(W, [Field("f", T_uint(8), [(4, 4)], (W // 8, 8, True), "rw")], "type-width-mismatch", f"[u8;{W // 8}] over 4-bit elements with stride 8 on u{W}")
        add(W, [Field("f", T_int(8), [(1, 5)], (2, 8, True), "rw")], "type-width-mismatch", f"[i8;2] over 5-bit elements with stride 8 on u{W}")
        add(W, [Field("f", T_uint(16), [(0, 12)], (W // 16, 16, True), "w")] if W >= 32 else [Field("f", T_uint(8), [(0, 6)], (2, 9, True), "w")], "type-width-mismatch", f"write-only native array over fewer bits than its type on u{W}")
        add(W, [Field("f", T_uint(8), [(0, 2), (4, 2)], (2, 8, True), "rw")], "type-width-mismatch", f"[u8;2] over 4-bit range lists with stride 8 on u{W}")
    # 1b. custom-typed fields (bitenum / hand-written / nested bitfield) whose raw type is wider or
    # narrower than the selected bits; write-only ones have no getter whose type error would catch it
    for W in (8, 32, 24, 128):
        for acc in ("w", "rw"):
            e = sparse_enum("E4", 4, [0, 15], None)
            add(W, [Field("f", FType("optenum", 4, e), [(W - 3, 3)], None, acc)], "custom-type-width-mismatch", f"4-bit Option<bitenum> over 3 bits at the top of u{W}, access {acc}", aux=[e])
            e = sparse_enum("E4", 4, [0, 15], None)
            add(W, [Field("f", FType("optenum", 4, e), [(1, 3)], None, acc)], "custom-type-width-mismatch", f"4-bit Option<bitenum> over bits 1..=3 of u{W}, access {acc}", aux=[e])
            e = full_enum("E2", 2)
            add(W, [Field("f", FType("enum", 2, e), [(0, 3)], None, acc)], "custom-type-width-mismatch", f"2-bit exhaustive bitenum over 3 bits of u{W}, access {acc}", aux=[e])
            add(W, [Field("f", FType("custom", 5, None, "Cust"), [(2, 4)], None, acc)], "custom-type-width-mismatch", f"5-bit custom type over 4 bits of u{W}, access {acc}", aux=[custom_decl("Cust", 5)])
            add(W, [Field("f", FType("nested", 8, None, "Inner"), [(0, 7)], None, acc)], "custom-type-width-mismatch", f"8-bit nested bitfield over 7 bits of u{W}, access {acc}", aux=[nested_decl("Inner", 8)])
            add(W, [Field("f", FType("custom", 3, None, "Cust"), [(1, 2)], (2, 3, True), acc)], "custom-type-width-mismatch", f"array of 3-bit custom type over 2-bit elements of u{W}, access {acc}", aux=[custom_decl("Cust", 3)])
            if W >= 32:
                add(W, [Field("f", FType("custom", 16, None, "Cust"), [(4, 12)], None, acc)], "custom-type-width-mismatch", f"u16-backed custom type over 12 bits of u{W}, access {acc}", aux=[custom_decl("Cust", 16)])
                add(W, [Field("f", FType("custom", 12, None, "Cust"), [(4, 16)], None, acc)], "custom-type-width-mismatch", f"u12-backed custom type over 16 bits of u{W}, access {acc}", aux=[custom_decl("Cust", 12)])
    # 2. a bit >= N, non-array
    for W in nat:
        add(W, [Field("f", T_bool(), [(W, 1)], None, "rw")], "non-array-field-beyond-base-width", f"bool at bit {W} of u{W}")
        add(W, [Field("f", T_uint(4), [(W - 2, 4)], None, "rw")], "non-array-field-beyond-base-width", f"u4 straddling the top of u{W}")
        add(W, [Field("f", T_uint(8), [(W - 4, 8)], None, "r")], "non-array-field-beyond-base-width", f"read-only u8 straddling the top of u{W}")
        add(W, [Field("f", T_uint(3), [(W + 8, 3)], None, "rw")], "non-array-field-beyond-base-width", f"u3 entirely above u{W}")
        add(W, [Field("f", T_uint(2), [(0, 1), (W, 1)], None, "rw")], "list-item-beyond-base-width", f"list with an item at bit {W} of u{W}")
        add(W, [Field("f", T_int(8), [(W - 7, 8)], None, "rw")], "non-array-field-beyond-base-width", f"i8 one bit beyond u{W}")
    # the same with enum / Option<enum> / nested-bitfield / custom field types
    for W in [8, 32, 128] + arbs[:6]:
        e = full_enum("E2", 2)
        o = sparse_enum("E3N", 3, [0, 1, 5, 7], None)
        add(W, [Field("f", FType("enum", 2, e), [(W - 1, 2)], None, "rw"), Field("lo", T_bool(), [(0, 1)], None, "rw")], "custom-typed-field-beyond-base-width", f"2-bit enum straddling the top of u{W}", aux=[e])
        add(W, [Field("f", FType("optenum", 3, o), [(W - 2, 3)], None, "rw")], "custom-typed-field-beyond-base-width", f"Option<3-bit enum> one bit beyond u{W}", aux=[o])
        if W >= 8:
            add(W, [Field("f", FType("nested", 8, None, "Inner"), [(W - 4, 8)], None, "rw")], "custom-typed-field-beyond-base-width", f"8-bit nested bitfield straddling the top of u{W}", aux=[nested_decl("Inner", 8)])
        add(W, [Field("f", FType("custom", 3, None, "Cust"), [(W, 3)], None, "w")], "custom-typed-field-beyond-base-width", f"write-only 3-bit custom type entirely above u{W}", aux=[custom_decl("Cust", 3)])
    if True:
        add(32, [Field("f", T_bool(), [(40, 1)], None, "rw")], "non-array-field-beyond-base-width", "bool at bit 40 of u32 (property text example)")
        add(32, [Field("f", T_uint(5), [(30, 5)], None, "rw")], "non-array-field-beyond-base-width", "u5 at 30..=34 of u32")
        add(16, [Field("f", T_uint(8), [(10, 8)], None, "r")], "non-array-field-beyond-base-width", "u8 at 10..=17 of u16 read-only")
        add(64, [Field("f", T_uint(64), [(1, 64)], None, "rw")], "non-array-field-beyond-base-width", "u64 at 1..=64 of u64")
        add(128, [Field("f", T_bool(), [(128, 1)], None, "rw")], "non-array-field-beyond-base-width", "bool at bit 128 of u128")
    for N in arbs:
        st = storage_bits(N)
        add(N, [Field("f", T_bool(), [(N, 1)], None, "rw")], "non-array-field-beyond-base-width", f"bool at bit {N} of u{N} (inside the u{st} storage)")
        if N + 1 < st:
            add(N, [Field("f", T_uint(2), [(N - 1, 2)], None, "rw")], "non-array-field-beyond-base-width", f"u2 straddling bit {N - 1}/{N} of u{N}")
        if st - N >= 2:
            add(N, [Field("f", ty_for_width(st - N, "u1"), [(N, st - N)], None, "rw")], "non-array-field-beyond-base-width", f"field filling the hidden storage bits {N}..={st - 1} of u{N}")
        add(N, [Field("f", T_bool(), [(st, 1)], None, "rw")], "non-array-field-beyond-base-width", f"bool at bit {st} of u{N} (beyond the storage)")
        add(N, [Field("f", T_uint(2), [(N, 1), (0, 1)], None, "rw")], "list-item-beyond-base-width", f"list with an item at bit {N} of u{N}")
        if N >= 4:
            # arrays whose last element pokes one bit beyond N but stays inside the storage
            w = 2
            K = 2
            lo = N - (K - 1) * w - w + 1
            if lo >= 0 and (K - 1) * w + lo + w <= st:
                add(N, [Field("f", T_uint(w), [(lo, w)], (K, w, False), "rw")], "array-beyond-exposed-width", f"[u2;2] ending at bit {N} of u{N} (inside the storage)")
            add(N, [Field("f", T_bool(), [(N - 1, 1)], (2, 1, False), "rw")], "array-beyond-exposed-width", f"[bool;2] at bits {N - 1},{N} of u{N}")
            if N >= 6 and N + 1 < st:
                # array of range lists with gaps whose last element pokes above N (inside the storage)
                add(N, [Field("f", T_uint(2), [(0, 1), (2, 1)], (2, N - 2, True), "rw")], "array-of-lists-beyond-exposed-width", f"array of lists {{0,2}} stride {N - 2} K=2 reaching bit {N} of u{N}")
                add(N, [Field("f", T_uint(3), [(0, 1), (2, 1), (4, 1)], (3, (N - 3) // 2, True), "rw")] if 2 * ((N - 3) // 2) + 4 >= N and 2 * ((N - 3) // 2) + 4 < st else [Field("f", T_uint(2), [(1, 1), (3, 1)], (2, N - 3, True), "rw")], "array-of-lists-beyond-exposed-width", f"array of lists with gaps reaching above bit {N - 1} of u{N}")
    add(24, [Field("hi", T_uint(8), [(24, 8)], None, "rw")], "non-array-field-beyond-base-width", "u24 with a field at 24..=31 (property text example)")
    # arrays beyond the storage width
    for W in nat:
        add(W, [Field("f", T_uint(4), [(0, 4)], (W // 4 + 1, 4, False), "rw")], "array-beyond-storage-width", f"[u4;{W // 4 + 1}] on u{W}")
        add(W, [Field("f", T_bool(), [(1, 1)], (W, 1, False), "rw")], "array-beyond-storage-width", f"[bool;{W}] from bit 1 on u{W}")
        add(W, [Field("f", T_uint(2), [(0, 2)], (2, W - 1, True), "rw")], "array-beyond-storage-width", f"[u2;2] stride {W - 1} on u{W}")
        add(W, [Field("f", T_uint(2), [(0, 1), (2, 1)], (2, W - 2, True), "rw")], "array-beyond-storage-width", f"array of lists one bit beyond u{W}")
    # 3. stride < width
    for W in (8, 32, 128, 24):
        add(W, [Field("f", T_uint(4), [(0, 4)], (2, 3, True), "rw")], "stride-less-than-width", f"[u4;2] stride 3 on u{W}")
        add(W, [Field("f", T_uint(2), [(0, 2)], (3, 1, True), "rw")], "stride-less-than-width", f"[u2;3] stride 1 on u{W}")
        add(W, [Field("f", T_uint(3), [(0, 3)], (2, 0, True), "rw")], "stride-less-than-width", f"[u3;2] stride 0 on u{W}")
    add(64, [Field("f", T_int(8), [(0, 8)], (4, 7, True), "rw")], "stride-less-than-width", "[i8;4] stride 7 on u64")
    for W in (8, 32, 24):
        add(W, [Field("f", T_bool(), [(3, 1)], (4, 0, True), "rw")], "stride-less-than-width", f"[bool;4] stride 0 on u{W}")
        add(W, [Field("f", T_uint(1), [(3, 1)], (4, 0, True), "rw")], "stride-less-than-width", f"[u1;4] stride 0 on u{W}")
        add(W, [Field("f", T_bool(), [(0, 1)], (2, 0, True), "w")], "stride-less-than-width", f"write-only [bool;2] stride 0 on u{W}")
        e = full_enum("E1", 1)
        add(W, [Field("f", FType("enum", 1, e), [(1, 1)], (3, 0, True), "rw")], "stride-less-than-width", f"[1-bit enum;3] stride 0 on u{W}", aux=[e])
    for W in (8, 32, 24):
        # an array whose single range is written as a ONE-entry list is still a contiguous array
        add(W, [Field("f", T_uint(4), [(0, 4)], (2, 2, True), "rw", form="list")], "stride-less-than-width", f"[u4;2] declared as a one-entry list with stride 2 on u{W}")
        add(W, [Field("f", T_uint(3), [(1, 3)], (2, 1, True), "rw", form="bit_list")], "stride-less-than-width", f"[u3;2] declared as bit([1..=3]) with stride 1 on u{W}")
    # 4. lo > hi
    for W in (8, 32, 64, 24):
        L = Layout(W, [Field("f", T_uint(6), [(3, 0)], None, "rw", raw_attr="#[bits(6..=1, rw)]")], tag=f"reversed range 6..=1 typed u6 on u{W}")
        C.append((L, "reversed-range"))
        L = Layout(W, [Field("f", T_uint(2), [(3, 0)], None, "rw", raw_attr="#[bits(5..=4, rw)]")], tag=f"reversed range 5..=4 typed u2 on u{W}")
        C.append((L, "reversed-range"))
        L = Layout(W, [Field("f", T_bool(), [(3, 0)], None, "rw", raw_attr="#[bits(3..=2, rw)]")], tag=f"reversed range 3..=2 typed bool on u{W}")
        C.append((L, "reversed-range"))
    # reversed item inside a list whose remaining items make the total match (wraps in a release-built macro)
    L = Layout(32, [Field("f", T_uint(8), [(0, 12)], None, "rw", raw_attr="#[bits([8..=3, 0..=11], rw)]")], tag="list [8..=3, 0..=11] typed u8 on u32")
    L.fields[0].ranges = [(0, 12)]
    C.append((L, "reversed-range-in-list"))
    L = Layout(64, [Field("f", T_uint(16), [(0, 20)], None, "rw", raw_attr="#[bits([20..=17, 0..=19], rw)]")], tag="list [20..=17, 0..=19] typed u16 on u64")
    L.fields[0].ranges = [(0, 20)]
    C.append((L, "reversed-range-in-list"))
    L = Layout(16, [Field("f", T_uint(4), [(0, 6)], None, "rw", raw_attr="#[bits([0..=5, 9..=8], rw)]")], tag="list [0..=5, 9..=8] typed u4 on u16")
    L.fields[0].ranges = [(0, 6)]
    C.append((L, "reversed-range-in-list"))
    L = Layout(24, [Field("f", T_uint(8), [(0, 12)], None, "rw", raw_attr="#[bits([8..=3, 0..=11], rw)]")], tag="list [8..=3, 0..=11] typed u8 on u24")
    L.fields[0].ranges = [(0, 12)]
    C.append((L, "reversed-range-in-list"))
    # reversed item with lo == hi + 1 (an "empty" range) hidden in a list whose other items add up
    for (W, ty, attr, rs) in [(16, T_uint(8), "#[bits([0..=3, 9..=8, 4..=7], rw)]", [(0, 4), (4, 4)]), (32, T_uint(4), "#[bits([1..=0, 4..=7], rw)]", [(4, 4)]),
                              (8, T_uint(2), "#[bits([0, 3..=2, 5], rw)]", [(0, 1), (5, 1)]), (24, T_uint(6), "#[bits([0..=2, 20..=19, 10..=12], rw)]", [(0, 3), (10, 3)]),
                              (64, T_int(8), "#[bits([0..=3, 60..=63, 33..=32], rw)]", [(0, 4), (60, 4)])]:
        L = Layout(W, [Field("f", ty, rs, None, "rw", raw_attr=attr)], tag=f"list with an empty reversed item: {attr} on u{W}")
        C.append((L, "reversed-empty-range-in-list"))
    # numbers so large that the macro's own usize arithmetic wraps when it is built without overflow
    # checks (the reference treats positions >= 128 as non-existent, so the stand-in ranges below only
    # have to be "somewhere outside")
    for W in (8, 32, 128, 24):
        L = Layout(W, [Field("f", T_bool(), [(200, 1)], None, "rw", raw_attr="#[bit(18446744073709551615, rw)]")], tag=f"bool at bit 2^64-1 of u{W}")
        C.append((L, "huge-bit-position"))
        L = Layout(W, [Field("f", T_uint(8), [(200, 8)], None, "rw", raw_attr="#[bits(18446744073709551608..=18446744073709551615, rw)]")], tag=f"u8 ending at bit 2^64-1 of u{W}")
        C.append((L, "huge-bit-position"))
        L = Layout(W, [Field("f", T_bool(), [(0, 1)], (3, 200, True), "rw", raw_attr="#[bit(0, rw, stride = 9223372036854775808)]")], tag=f"[bool;3] with stride 2^63 on u{W}")
        C.append((L, "huge-stride-wraps"))
        L = Layout(W, [Field("f", T_uint(4), [(0, 4)], (5, 200, True), "rw", raw_attr="#[bits(0..=3, rw, stride = 4611686018427387904)]")], tag=f"[u4;5] with stride 2^62 on u{W}")
        C.append((L, "huge-stride-wraps"))
        L = Layout(W, [Field("f", T_uint(2), [(0, 1), (2, 1)], (3, 200, True), "rw", raw_attr="#[bits([0, 2], rw, stride = 9223372036854775808)]")], tag=f"array of lists with stride 2^63 on u{W}")
        C.append((L, "huge-stride-wraps"))
    # a list with a gap whose widths add up to exactly N while one entry lies above bit N-1
    for N in (24, 12, 48, 100):
        st = storage_bits(N)
        hi_n = st - N
        add(N, [Field("f", T_uint(N), [(0, N - hi_n), (st - hi_n, hi_n)], None, "rw")], "list-item-beyond-base-width", f"u{N}-wide list [0..={N - hi_n - 1}, {st - hi_n}..={st - 1}] on u{N}")
    # the same kinds of invalid fields WITHOUT any access specifier (reserved fields)
    for W in (32, 24):
        add(W, [Field("reserved", T_uint(8), [(W - 4, 8)], None, "")], "non-array-field-beyond-base-width", f"reserved u8 straddling the top of u{W}, no access specifier")
        add(W, [Field("reserved", T_bool(), [(W, 1)], None, "")], "non-array-field-beyond-base-width", f"reserved bool at bit {W} of u{W}, no access specifier")
        add(W, [Field("reserved", T_uint(5), [(0, 6)], None, "")], "type-width-mismatch", f"reserved u5 over 6 bits of u{W}, no access specifier")
        add(W, [Field("reserved", T_bool(), [(2, 2)], None, "")], "type-width-mismatch", f"reserved bool over 2 bits of u{W}, no access specifier")
        add(W, [Field("reserved", T_uint(4), [(0, 4)], (2, 3, True), "")], "stride-less-than-width", f"reserved [u4;2] stride 3 on u{W}, no access specifier")
        add(W, [Field("reserved", T_uint(4), [(0, 4)], (W // 4 + 1, 4, False), "")], "array-beyond-storage-width", f"reserved [u4;{W // 4 + 1}] on u{W}, no access specifier")
        L = Layout(W, [Field("reserved", T_uint(2), [(0, 1), (4, 1)], (2, 2, False), "")], tag=f"reserved array of lists without stride on u{W}, no access specifier")
        C.append((L, "list-array-without-stride"))
    for W in (8, 32, 24):
        L = Layout(W, [Field("f", T_uint(4), [(0, 4)], (3, 200, True), "r", raw_attr="#[bits(0..=3, r, stride = 9223372036854775808)]")], tag=f"read-only [u4;3] with stride 2^63 on u{W}")
        C.append((L, "huge-stride-wraps"))
        L = Layout(W, [Field("f", T_uint(2), [(0, 1), (2, 1)], (2, 200, True), "r", raw_attr="#[bits([0, 2], r, stride = 18446744073709551615)]")], tag=f"read-only array of lists with stride 2^64-1 on u{W}")
        C.append((L, "huge-stride-wraps"))
    for N in (24, 12, 100):
        st = storage_bits(N)
        add(N, [Field("x", T_uint(N + 8), [(0, N + 4), (8, 4)], None, "rw")], "list-item-beyond-base-width", f"overlapping list [0..={N + 3}, 8..=11] typed u{N + 8} on u{N}: the LONGER entry starts lower and reaches above bit {N - 1}")
    # 5. degenerate arrays
    for W in (8, 32):
        L = Layout(W, [Field("f", T_uint(4), [(0, 4)], (1, 4, False), "rw")], tag=f"[u4;1] on u{W}")
        C.append((L, "array-of-one"))
        L = Layout(W, [Field("f", T_uint(4), [(0, 4)], (0, 4, False), "rw")], tag=f"[u4;0] on u{W}")
        L.fields[0].array = (0, 4, False)
        C.append((L, "array-of-zero"))
    # non-contiguous array without stride
    for W in (16, 64):
        L = Layout(W, [Field("f", T_uint(2), [(0, 1), (4, 1)], (2, 2, False), "rw")], tag=f"array of lists without stride on u{W}")
        C.append((L, "list-array-without-stride"))
    return C


def c09_accept_corpus(tier, seed):
    """rule-valid declarations that must compile: breadth corpus + the just-inside member of every
    boundary pair + every k-th declaration of the other checks' quick corpora"""
    Ls = []
    for W in NATIVE_BASES + [7, 9, 24, 33, 65, 100, 127]:
        # just inside
        Ls.append(Layout(W, [Field("f", T_bool(), [(W - 1, 1)], None, "rw")], tag=f"bool at top bit of u{W}"))
        if W >= 4:
            Ls.append(Layout(W, [Field("f", T_uint(4), [(W - 4, 4)], None, "rw")], tag=f"u4 ending at top of u{W}"))
            Ls.append(Layout(W, [Field("f", T_uint(2), [(W - 4, 2)], (2, 2, False), "rw")], tag=f"[u2;2] ending at top of u{W}"))
            Ls.append(Layout(W, [Field("f", T_uint(2), [(0, 1), (W - 1, 1)], None, "rw")], tag=f"list touching the top of u{W}"))
            Ls.append(Layout(W, [Field("f", T_uint(2), [(0, 1), (2, 1)], (2, W - 3, True), "rw")], tag=f"array of lists ending at top of u{W}"))
        Ls.append(Layout(W, [Field("f", T_uint(W), [(0, W)], None, "rw")], tag=f"full-width field on u{W}"))
        if W >= 8:
            Ls.append(Layout(W, [Field("f", T_uint(4), [(0, 4)], (2, 4, False), "rw", form="list")], tag=f"[u4;2] declared as a one-entry list without stride on u{W}"))
            Ls.append(Layout(W, [Field("f", T_uint(2), [(1, 1), (5, 1)], None, "rw", form="bit_list"), Field("g", T_uint(3), [(W - 3, 3)], None, "rw", form="bit_list")], tag=f"lists spelled under `bit` on u{W}"))
            L_ = Layout(W, [Field("ro", T_uint(3), [(1, 3)], None, "r")], default=("lit", 0x2b, "hex"), debug=True, tag=f"default followed by debug, read-only fields only, on u{W}")
            Ls.append(L_)
            L_ = Layout(W, [Field("f", T_uint(3), [(1, 3)], None, "rw")], default=("lit", 0x2b, "hex"), tag=f"default with a trailing comma on u{W}")
            L_.trailing_comma = True
            Ls.append(L_)
        if W >= 8:
            Ls.append(Layout(W, [Field("f", T_uint(4), [(0, 4)], (2, 4, True), "rw")], tag=f"stride == width on u{W}"))
            Ls.append(Layout(W, [Field("f", T_uint(6), [(1, 6)], None, "r"), Field("g", T_int(8), [(W - 8, 8)], None, "w"), Field("n", T_bool(), [(0, 1)], None, "")], tag=f"access r / w / none on u{W}"))
    Ls += list_syntax_layouts() + surface_layouts() + c12_selfoverlap_layouts()
    k = 1 if tier != "quick" else 4
    for fn in (c01_layouts, c02_layouts, c03_layouts, c04_layouts, c05_layouts, c06_layouts, c08_layouts, c12_layouts, c13_layouts, c16_layouts):
        ls = fn("quick", 0)
        Ls += ls[::k]
    return Ls


def plan_c09(tier, seed):
    us = []
    acc = c09_accept_corpus(tier, seed)
    extra = [Unit(f"a{i:05d}", L.decl() + ("\n" + C06_PRE if False else ""), [], {"layout": L, "sig": L.sig(), "tag": L.tag, "valid": True, "role": "rule-valid-rejected"}) for i, L in enumerate(acc)]
    cands = c09_candidates(tier)
    for i, (L, role) in enumerate(cands):
        hs = []
        for f in L.fields:
            if f.K == 0:
                continue
            hs += h_sound(L, f, role)
        us.append(Unit(f"c{i:05d}", L.decl(), hs, {"layout": L, "sig": L.sig(), "tag": L.tag, "valid": False, "role": role}))
    # negative controls live on a rule-valid layout (must be accepted): reference shifted / value flipped
    Lc = Layout(32, [Field("f", T_uint(5), [(4, 5)], None, "rw"), Field("a", T_uint(4), [(16, 4)], (4, 4, False), "rw")], tag="control layout")
    cu = Unit("k00000", Lc.decl(), [H.ctl_get(Lc, Lc.fields[0], "C09"), H.ctl_set(Lc, Lc.fields[0], "C09"), H.ctl_oob(Lc, Lc.fields[1], "C09", "get")] + h_sound(Lc, Lc.fields[0], "") + h_sound(Lc, Lc.fields[1], ""),
              {"layout": Lc, "sig": Lc.sig(), "tag": Lc.tag, "valid": True})
    us.append(cu)
    return Plan(us, title="a declaration compiles iff it fits", macro_profiles=("dev", "release"), accept_is_obligation=True, reject_is_obligation=True, extra_accept_units=extra, chunk=400,
                bounds={"accept direction": "%d rule-valid declarations must compile (concrete run of the macro, both host profiles)" % len(extra),
                        "reject direction": "%d just-outside candidates (type width != bits, a bit >= N on native and arbitrary-int bases for scalars/lists/arrays, stride < width, lo > hi, degenerate arrays): each is either rejected by the macro or its accepted expansion must satisfy the soundness spec S1..S5 for ALL inputs (solver)" % len(cands),
                        "host profiles": "the macro is built dev-style and release-style ([profile.dev.build-override] overflow-checks=false, debug-assertions=false)",
                        "outside": "purely syntactic rules with no run-time consequence (array of one element), wording/location of diagnostics"},
                assumptions=COMMON_ASSUME + ["the rule oracle is written from the property text (model.Layout.rule_valid)", "the verdict accept/reject is a concrete run of the generator by rustc; what the solver decides is the semantics of every accepted expansion"],
                rule="evaluation = one Kani harness of the soundness spec for an accepted candidate (or a negative control); acceptance obligations are counted separately under obligations; distinct = (declaration signature, harness family, field, macro host profile)")


PLANS.update({"C09": plan_c09})


# ------------------------------------------------------------------------------------------------
# C14: builder offered exactly when sound
C14_PRE = """pub struct VNoBuilder;
pub trait VProbeBuilder { fn builder() -> VNoBuilder { VNoBuilder } }
impl VProbeBuilder for S {}
pub fn voffered<T: 'static>(_: &T) -> bool { core::any::TypeId::of::<T>() != core::any::TypeId::of::<VNoBuilder>() }"""


def h_c14_probe(L, expected):
    b = [f"let b = {L.name}::builder();", "let offered: bool = voffered(&b);"]
    b.append('vcover!(offered, "VERIF-REACH-offered");')
    if expected:
        b.append('assert!(offered, "VERIF builder() is not offered although no bit is writable twice and the layout is complete or has a default");')
    b.append("vend!();")
    return Harness("probe", "\n".join(b), "pass", "builder_offered_probe", "C14", "", (f"{L.name}::builder",))


def h_c14_sound(L, role):
    b = []
    chain, args = builder_chain(L, b)
    b.append(f"let built: {L.name} = {chain};")
    b.append(f"let braw: u128 = {H.raw_of(L, 'built')};")
    for (f, vs) in args:
        for j, v in enumerate(vs):
            b.append(f'assert!(spec::get(braw, {H.rng(f.ranges)}, {j * f.stride}u32) == {H.val_bits(f.ty, v)}, "VERIF builder: field {f.name}{"[%d]" % j if f.array else ""} does not read back the argument supplied for it (a bit is writable twice)");')
    reach = ()
    # without a default the writable fields must cover every bit: all-ones must be buildable -- decidable this way
    # only when every writable field's type can take the all-ones pattern (an Option<enum> field with a sparse
    # enum cannot, whatever the builder does)
    if not L.default and all(f.ty.kind != "optenum" for f in L.fields if f.writable):
        b.append(f'vcover!(braw == {mask(L.base):#x}u128, "VERIF-REACH-all-ones");')
        reach = ("VERIF-REACH-all-ones",)
    b.append("vend!();")
    return Harness("sound", "\n".join(b), "pass", "builder_sound", "C14", "", (f"{L.name}::builder", "Partial*::with_*", "build"), reach=reach, role=role, note="requires:probe:VERIF-REACH-offered")


def c14_candidates(tier, seed):
    C = []

    def add(W, fields, role, tag, default=None, aux=None):
        C.append((Layout(W, fields, default=default, tag=tag, aux=aux or []), role))

    D = lambda W: ("lit", (1 << (W - 1)) | 1, "hex")
    for W in (8, 32, 128, 24, 65):
        h = W // 2
        # eligible ones
        add(W, [Field("a", ty_for_width(h, "u1"), [(0, h)], None, "rw"), Field("b", ty_for_width(W - h, "u1"), [(h, W - h)], None, "rw")], "", f"complete two halves on u{W}")
        add(W, [Field("a", T_uint(3), [(1, 3)], None, "rw")], "", f"partial with default on u{W}", default=D(W))
        add(W, [Field("a", T_uint(3), [(1, 3)], None, "w"), Field("r0", T_uint(2), [(1, 2)], None, "r")], "", f"read-only field overlapping a writable one, with default on u{W}", default=D(W))
        add(W, [Field("a", T_uint(2), [(0, 1), (2, 1)], (2, 1, True), "rw")], "", f"interleaving array of lists without collision, default on u{W}", default=D(W))
        # not eligible: overlapping scalar fields
        add(W, [Field("a", T_uint(4), [(0, 4)], None, "rw"), Field("b", T_uint(4), [(3, 4)], None, "rw")], "overlapping-scalar-fields", f"two writable fields share bit 3 on u{W}", default=D(W))
        add(W, [Field("a", T_uint(W), [(0, W)], None, "rw"), Field("b", T_bool(), [(W - 1, 1)], None, "w")], "overlapping-scalar-fields", f"full-width field + top bit on u{W}")
        # overlapping array elements cannot be declared with a single range (stride >= width); lists can collide
        add(W, [Field("a", T_uint(2), [(0, 1), (2, 1)], (2, 2, True), "rw")], "colliding-array-of-lists", f"array of lists whose elements collide on bit 2, default on u{W}", default=D(W))
        add(W, [Field("a", T_uint(3), [(0, 1), (1, 1), (2, 1)], (2, 1, True), "rw")], "colliding-array-of-lists", f"array of lists stride 1 overlapping, default on u{W}", default=D(W))
        # self-overlapping list on a non-array field
        add(W, [Field("a", T_uint(8), [(0, 4), (2, 4)], None, "rw")], "self-overlapping-list", f"list [0..=3, 2..=5] names bits twice, default on u{W}", default=D(W))
        add(W, [Field("a", T_uint(2), [(5, 1), (5, 1)], None, "rw")], "self-overlapping-list", f"list [5, 5], default on u{W}", default=D(W))
        if W in (8,):
            add(W, [Field("a", T_uint(8), [(0, 4), (4, 2), (2, 2)], None, "rw"), Field("b", T_uint(2), [(6, 2)], None, "rw")], "self-overlapping-list", f"self-overlapping list that 'covers' u{W} only by counting bits twice, no default")
        # array + scalar overlap
        add(W, [Field("a", T_uint(2), [(0, 2)], (3, 2, False), "rw"), Field("b", T_bool(), [(5, 1)], None, "rw")], "overlapping-array-and-scalar", f"scalar inside the last array element on u{W}", default=D(W))
        # incomplete cover without default
        add(W, [Field("a", ty_for_width(W - 1, "u1"), [(0, W - 1)], None, "rw")], "incomplete-no-default", f"top bit uncovered, no default on u{W}")
        add(W, [Field("a", ty_for_width(W - 1, "u1"), [(1, W - 1)], None, "rw"), Field("r0", T_bool(), [(0, 1)], None, "r")], "incomplete-no-default", f"bit 0 only readable, no default on u{W}")
        add(W, [Field("a", T_uint(2), [(0, 2)], (W // 3, 3, True), "rw")], "incomplete-no-default", f"array with gap bits, no default on u{W}")
    # full-width fields (the 128-bit mask special case among them): alone, and with a second writer
    for W in NATIVE_BASES + [7, 24, 65, 127]:
        add(W, [Field("a", T_uint(W), [(0, W)], None, "rw")], "", f"single full-width field, complete, on u{W}")
        add(W, [Field("a", T_uint(W), [(0, W)], None, "rw"), Field("b", T_bool(), [(W // 2, 1)], None, "rw")], "overlapping-scalar-fields", f"full-width field + a bool inside it, with default, on u{W}", default=D(W))
        add(W, [Field("b", T_bool(), [(0, 1)], None, "rw"), Field("a", T_uint(W), [(0, W)], None, "w")], "overlapping-scalar-fields", f"bool then full-width field, no default, on u{W}")
        if W >= 4:
            h = W // 2
            add(W, [Field("a", ty_for_width(h, "u1"), [(0, h)], (2, h, False), "rw")], "", f"two-element array covering u{W} completely")
            add(W, [Field("a", ty_for_width(h, "u1"), [(0, h)], (2, h, False), "rw"), Field("t", T_bool(), [(W - 1, 1)], None, "w")], "overlapping-array-and-scalar", f"complete array + top bit writer, default, on u{W}", default=D(W))
    # systematic small family: arrays of two single-bit items {0, d}, stride s, K elements, on u8/u16 with a
    # default: collisions between neighbouring AND non-neighbouring elements, and collision-free interleavings
    for W in (8, 16):
        for d in range(1, 7):
            for st in range(1, 5):
                for K in (2, 3, 4):
                    if (K - 1) * st + d < W:
                        f = Field("a", T_uint(2), [(0, 1), (d, 1)], (K, st, True), "rw")
                        Ltmp = Layout(W, [f], default=D(W))
                        role = "" if Ltmp.builder_expected() else "colliding-array-of-lists"
                        if W == 16 and (d + st + K) % 3:
                            continue
                        add(W, [f], role, f"array of lists {{0,{d}}} stride {st} K={K} on u{W}", default=D(W))
    # an overlap that is FOLLOWED in declaration order by clean writable array / list / scalar fields
    for W in (16, 32, 128, 24):
        tail_arr = Field("t_arr", T_uint(2), [(W - 4, 2)], (2, 2, False), "rw")
        tail_list = Field("t_list", T_uint(2), [(W - 5, 1), (W - 7, 1)], None, "rw")
        add(W, [Field("a", T_uint(4), [(0, 4)], None, "rw"), Field("b", T_uint(4), [(3, 4)], None, "rw"), tail_arr], "overlap-followed-by-clean-fields", f"two overlapping scalars then a clean array on u{W}", default=D(W))
        add(W, [Field("a", T_uint(4), [(0, 1), (1, 1), (1, 1), (2, 1)], None, "rw"), Field("t_list", T_uint(2), [(W - 5, 1), (W - 7, 1)], None, "rw")], "overlap-followed-by-clean-fields", f"self-overlapping list then a clean list on u{W}", default=D(W))
        add(W, [Field("a", T_uint(2), [(0, 1), (2, 1)], (2, 2, True), "rw"), Field("t_arr", T_uint(2), [(W - 4, 2)], (2, 2, False), "rw"), Field("t_list", T_uint(2), [(W - 5, 1), (W - 7, 1)], None, "rw")], "overlap-followed-by-clean-fields", f"colliding array of lists then clean array and list on u{W}", default=D(W))
        add(W, [Field("x", T_uint(3), [(4, 3)], None, "rw"), Field("a", T_uint(4), [(0, 4)], None, "rw"), Field("b", T_bool(), [(2, 1)], None, "w"), Field("t_arr", T_bool(), [(W - 3, 1)], (3, 1, False), "rw")], "overlap-followed-by-clean-fields", f"clean scalar, overlapping pair, clean bool array on u{W}", default=D(W))
        add(W, [Field("t_arr", T_uint(2), [(W - 4, 2)], (2, 2, False), "rw"), Field("a", T_uint(4), [(0, 4)], None, "rw"), Field("b", T_uint(4), [(3, 4)], None, "rw")], "overlapping-scalar-fields", f"clean array first, overlapping scalars last on u{W}", default=D(W))
    # self-overlapping lists as wide as the base (alone, no default): "complete" only by counting bits twice
    for W in (16, 24, 128):
        h = W // 2
        q = W // 4
        add(W, [Field("a", T_uint(W), [(0, h), (q, h)], None, "rw")], "self-overlapping-list", f"self-overlapping list as wide as u{W} as the only field, no default")
        add(W, [Field("a", T_uint(W), [(0, h), (q, h)], None, "w")], "self-overlapping-list", f"write-only self-overlapping list as wide as u{W}, with default", default=D(W))
    for W in (32, 64, 24):
        add(W, [Field("a", T_uint(8), [(0, 4), (2, 4)], (W // 8, 8, True), "rw")], "self-overlapping-list", f"array of self-overlapping lists [0..=3, 2..=5] with disjoint elements, default, on u{W}", default=D(W))
        add(W, [Field("a", T_uint(2), [(1, 1), (1, 1)], (3, 2, True), "rw")], "self-overlapping-list", f"array of lists [1, 1] with disjoint elements, default, on u{W}", default=D(W))
    # arrays of range lists with stride 0: every element is the same bits
    for W in (8, 32, 24, 128):
        add(W, [Field("a", T_uint(4), [(0, 2), (4, 2)], (2, 0, True), "rw")], "colliding-array-of-lists", f"array of lists with stride 0 (all elements alias), default, on u{W}", default=D(W))
        add(W, [Field("a", T_uint(2), [(1, 1), (3, 1)], (3, 0, True), "w"), Field("t", T_bool(), [(W - 1, 1)], None, "rw")], "colliding-array-of-lists", f"write-only array of single-bit lists with stride 0 plus a clean bool, default, on u{W}", default=D(W))
        add(W, [Field("a", ty_for_width(W, "u1"), [(0, W // 2), (W // 2, W - W // 2)], (2, 0, True), "rw")], "colliding-array-of-lists", f"stride-0 array of lists covering u{W} 'completely', no default")
    # three-item lists with a far collision
    add(16, [Field("a", T_uint(3), [(0, 1), (1, 1), (6, 1)], (3, 3, True), "rw")], "colliding-array-of-lists", "items {0,1,6} stride 3 K=3: element 0 and 2 share bit 6", default=D(16))
    add(32, [Field("a", T_uint(4), [(0, 2), (12, 2)], (4, 4, True), "rw")], "colliding-array-of-lists", "ranges {0..1,12..13} stride 4 K=4: element 0 and 3 collide", default=D(32))
    add(32, [Field("a", T_uint(4), [(0, 2), (12, 2)], (3, 4, True), "rw")], "", "ranges {0..1,12..13} stride 4 K=3: no collision", default=D(32))
    return C


def plan_c14(tier, seed):
    us = []
    cands = c14_candidates(tier, seed)
    # plus the builder-eligible random layouts of C13 (eligible => offered) and C12's overlapping ones (not eligible)
    c13 = c13_layouts("quick", 0)
    extra = [(L, "") for L in (c13[:25] + c13[-8:] if tier == "quick" else c13_layouts("thorough", seed)[:200] + c13[-8:])]
    extra += [(L, "") for L in many_field_layouts() + surface_layouts()]
    extra += [(L, "overlapping-random-layout") for L in c12_layouts("quick", 0) if not L.builder_expected()][: (12 if tier == "quick" else 60)]
    for W in (8, 32, 24, 128):
        h = W // 2
        cands.append((Layout(W, [Field("cmd", ty_for_width(h, "u1"), [(0, h)], None, "w"), Field("hi", ty_for_width(W - h, "u1"), [(h, W - h)], None, "rw"), Field("status", ty_for_width(h, "u1"), [(0, h)], None, "r"), Field("resv", T_bool(), [(W - 1, 1)], None, "")], tag=f"complete writable cover, no default, plus a read-only view and an access-less field on u{W}"), ""))
        cands.append((Layout(W, [Field("id", T_uint(4), [(0, 4)], None, "r")], default=("lit", 0x5, "hex"), tag=f"default and only a read-only field on u{W}"), ""))
        cands.append((Layout(W, [], default=("lit", 0x1, "hex"), tag=f"default and no fields at all on u{W}"), ""))
        cands.append((Layout(W, [Field("id", T_uint(4), [(0, 4)], None, "")], default=("lit", 0x5, "hex"), tag=f"default and a field without access specifier on u{W}"), ""))
        cands.append((Layout(W, [Field("id", T_uint(4), [(0, 4)], None, "r")], tag=f"no default, only a read-only field on u{W}"), "incomplete-no-default"))
    for i, (L, role) in enumerate(cands + extra):
        if not L.rule_valid():
            continue
        exp = L.builder_expected()
        hs = [h_c14_probe(L, exp), h_c14_sound(L, role or ("eligible" if exp else "not-eligible"))]
        us.append(Unit(f"b{i:05d}", L.decl() + "\n" + C14_PRE, hs, {"layout": L, "sig": L.sig(), "tag": L.tag, "valid": True, "role": role, "expected": exp}))
    # controls: probe expecting a builder on a layout that cannot have one; a sound-harness with a wrong read-back
    Lc = Layout(8, [Field("a", T_uint(4), [(0, 4)], None, "rw"), Field("b", T_uint(4), [(4, 4)], None, "rw")], tag="control layout")
    h1 = h_c14_sound(Lc, "")
    h1.name, h1.expect, h1.family, h1.note = "ctl_sound", "control", "control", ""
    h1.body = h1.body.replace("assert!(spec::get(braw, &[(0, 4)], 0u32)", "assert!(spec::get(braw, &[(1, 4)], 0u32)", 1)
    Ln = Layout(8, [Field("a", T_uint(4), [(0, 4)], None, "rw")], tag="control layout (no builder)")
    h2 = h_c14_probe(Ln, True)
    h2.name, h2.expect, h2.family = "ctl_probe", "control", "control"
    us.append(Unit("k00000", Lc.decl() + "\n" + C14_PRE, [h1, h_c14_probe(Lc, True)], {"layout": Lc, "sig": Lc.sig(), "tag": Lc.tag, "valid": True}))
    us.append(Unit("k00001", Ln.decl() + "\n" + C14_PRE, [h2], {"layout": Ln, "sig": Ln.sig(), "tag": Ln.tag, "valid": True}))
    return Plan(us, title="builder offered exactly when sound", macro_profiles=("dev", "release"), chunk=200, harness_timeout=600,
                bounds={"layouts": "%d layouts: eligible (complete / default), overlapping scalar fields, colliding arrays of lists, self-overlapping lists, array/scalar overlap, incomplete cover without default, read-only gaps; + C13's eligible and C12's overlapping random layouts" % len(us),
                        "decided": "offered => for ALL argument tuples every field reads back its argument, and without a default all-ones is buildable; eligible => offered (ground, by name resolution through an inherent-over-trait probe)",
                        "outside": "that build() does not type-check on a proper prefix / subsequence of the chain (needs a program that must fail to compile)"},
                assumptions=COMMON_ASSUME + ["eligibility oracle written from the property text (model.Layout.builder_expected)"])


PLANS.update({"C14": plan_c14})


# ------------------------------------------------------------------------------------------------
# C10: bitenum validation, accepted => sound
def c10_candidates(tier, seed):
    """[(EnumDef, role)]; rule validity comes from EnumDef.rule_valid()"""
    C = []

    def add1(bits, discrs, exhaustive, role, tag, cfg=None, legacy=False):
        vs = [(f"V{i}", d, (cfg[i] if cfg else None)) for i, d in enumerate(discrs)]
        e = EnumDef("E", bits, vs, exhaustive, legacy)
        e.tag = tag
        C.append((e, role))

    def add(bits, discrs, exhaustive, role, tag, cfg=None, legacy=False):
        add1(bits, discrs, exhaustive, role, tag, cfg, legacy)
        # the same set in other declaration orders (largest first / largest in the middle followed by
        # a drop and a rise / reversed): validation must not depend on the order
        if cfg is None and len(discrs) >= 3 and bits <= (3 if tier == "quick" else 4):
            d = list(discrs)
            mx = max(d)
            rest = [x for x in d if x != mx]
            add1(bits, [mx] + rest, exhaustive, role, tag + " [largest first]")
            add1(bits, rest[:1] + [mx] + rest[1:], exhaustive, role, tag + " [largest second]")
            if tier != "quick" or exhaustive in ("true", None):
                add1(bits, list(reversed(d)), exhaustive, role, tag + " [reversed]")

    sizes = [1, 2, 3, 4, 8] + ([5, 7] if tier != "quick" else [])
    for N in sizes:
        n = 1 << N
        full = list(range(n))
        for ex in (("true", "false", None, "conditional") if (N < 8 or tier != "quick") else ("true", None)):
            add(N, full, ex, "all-values-present", f"u{N}: all {n} values, exhaustive={ex}")
            add(N, full[:-1], ex, "one-value-missing", f"u{N}: top value missing, exhaustive={ex}")
            add(N, full[1:], ex, "one-value-missing", f"u{N}: zero missing, exhaustive={ex}")
            add(N, [n - 1], ex, "single-variant", f"u{N}: single variant at max, exhaustive={ex}")
            # max discriminant == 2^N (one too large), with and without the full set
            add(N, [0, n], ex, "discriminant-too-large", f"u{N}: discriminant {n} == 2^N, exhaustive={ex}")
            add(N, full[:-1] + [n], ex, "discriminant-too-large", f"u{N}: 2^N variants but one is {n}, exhaustive={ex}")
            if N <= 4:
                add(N, full + [n], ex, "too-many-variants", f"u{N}: 2^N+1 variants, exhaustive={ex}")
        # cfg-gated variants without `conditional`
        if N >= 2:
            add(N, full, "true", "cfg-without-conditional", f"u{N}: full set, one variant cfg'd OFF, exhaustive=true", cfg=[None] * (n - 1) + ["off"])
            add(N, full, "true", "cfg-without-conditional", f"u{N}: full set, one variant cfg'd ON, exhaustive=true", cfg=[None] * (n - 1) + ["on"])
            add(N, full[:-1], None, "cfg-without-conditional", f"u{N}: cfg'd variant, exhaustive omitted", cfg=["on"] + [None] * (n - 2))
            add(N, full, "conditional", "conditional", f"u{N}: conditional with one variant OFF", cfg=[None] * (n - 1) + ["off"])
            add(N, full, "true", "cfg-without-conditional", f"u{N}: full set, one DOCUMENTED variant cfg'd OFF (doc comment before #[cfg]), exhaustive=true", cfg=[None] * (n - 1) + ["off_doc"])
            add(N, full, "true", "cfg-without-conditional", f"u{N}: full set, first variant documented and cfg'd OFF, exhaustive=true", cfg=["off_doc"] + [None] * (n - 1))
            add(N, full[:-1], "false", "cfg-without-conditional", f"u{N}: documented cfg'd variant, exhaustive=false", cfg=["on_doc"] + [None] * (n - 2))
            add(N, full, "conditional", "conditional", f"u{N}: conditional with a documented variant OFF", cfg=[None] * (n - 1) + ["off_doc"])
    # storage-class boundaries up to 64
    for N in (9, 16, 17, 32, 33, 63, 64):
        top = (1 << N) - 1
        add(N, [0, top], None, "sparse-wide", f"u{N}: {{0, max}}")
        add(N, [0, top], "true", "exhaustive-claim-on-sparse-wide", f"u{N}: {{0, max}} claimed exhaustive")
        if N < 64:
            add(N, [0, top + 1], None, "discriminant-too-large", f"u{N}: discriminant 2^{N}")
            add(N, [top + 1], "false", "discriminant-too-large", f"u{N}: only discriminant 2^{N}")
    for N in (2, 3):
        n = 1 << N
        add1(N, [0, 1, n + 3], "conditional", "gated-discriminant-too-large", f"u{N}: conditional with a cfg-gated (inactive) variant whose discriminant is too large", cfg=[None, None, "off"])
        add1(N, [0, 1, n], "conditional", "gated-discriminant-too-large", f"u{N}: conditional with a cfg-gated (active) variant whose discriminant is 2^N", cfg=[None, None, "on"])
        add1(N, list(range(n)) + [n], "conditional", "gated-discriminant-too-large", f"u{N}: 2^N+1 variants, the gated extra one too large", cfg=[None] * n + ["on_doc"])
    add1(2, [0, 1, 2, 3, 3, 4], "conditional", "discriminant-too-large", "u2: conditional with six variants, the LAST one (declared after the first 2^N) too large", cfg=[None, None, None, "on", "off", None])
    add1(1, [0, 1, 1, 2], "conditional", "discriminant-too-large", "u1: conditional with four variants, the last one too large", cfg=[None, "on", "off", None])
    # variants without an explicit discriminant (rustc would number them previous + 1)
    for (bits, names_discr, implicit, ex) in ((2, [0, 1, 2, 3], ["V1", "V2", "V3"], "true"), (2, [2, 0, 1, 3], ["V2"], "true"), (4, [8, 2, 3, 4], ["V2", "V3"], None),
                                              (3, [0, 1, 2], ["V0", "V1", "V2"], "false"), (1, [0, 1], ["V1"], "true"), (8, [5, 6], ["V1"], None)):
        vs = [(f"V{i}", d, None) for i, d in enumerate(names_discr)]
        e = EnumDef("E", bits, vs, ex)
        e.implicit = tuple(implicit)
        e.tag = f"u{bits}: implicit discriminants for {implicit} (values previous+1 = {names_discr}), exhaustive={ex}"
        C.append((e, "implicit-discriminant"))
    # discriminants given as named constants (must be rejected: only integer literals are allowed)
    for (bits, ds, cn, ex, rp) in ((2, [0, 1, 7], ["V2"], None, "u8"), (2, [0, 1, 2, 4], ["V3"], "true", "u8"), (3, [0, 5], ["V1"], None, "u8"), (4, [1, 200], ["V1"], "false", "u8"), (2, [0, 1, 2, 3], ["V0", "V3"], "true", "u8")):
        vs = [(f"V{i}", d, None) for i, d in enumerate(ds)]
        e = EnumDef("E", bits, vs, ex)
        e.const_discr, e.repr = tuple(cn), rp
        e.tag = f"u{bits}: discriminants of {cn} given as named constants ({ds}), exhaustive={ex}"
        C.append((e, "constant-discriminant"))
    # exhaustive = true with cfg-gated alternatives that share a discriminant
    for (bits, ds, cfg) in ((1, [0, 1, 1], [None, "off", "off"]), (1, [0, 1, 1], [None, "on", "off"]), (2, [0, 1, 2, 3, 3], [None, None, None, "off", "off"]), (2, [0, 0, 1, 2, 3], ["off", "on", None, None, None])):
        add1(bits, ds, "true", "cfg-without-conditional", f"u{bits}: exhaustive = true with cfg'd alternatives sharing a discriminant {list(zip(ds, cfg))}", cfg=cfg)
    # variants gated through cfg_attr (a compile error today; if a tree accepts them the enum must still be sound)
    for (bits, ds, cfg, ex) in ((2, [0, 1, 2, 3], [None, None, None, "off_attr"], "true"), (1, [0, 1], ["off_attr", None], "true"), (2, [0, 1, 3], [None, None, "off_attr"], None)):
        add1(bits, ds, ex, "cfg-attr-gated-variant", f"u{bits}: variant gated through #[cfg_attr(.., cfg(..))] {list(zip(ds, cfg))}, exhaustive={ex}", cfg=cfg)
    # wide storage: exhaustive = true can never be satisfied; a few variants without it are fine
    for N in (16, 31, 32, 33, 63, 64):
        top = (1 << N) - 1
        add1(N, [0, 1, top], "true", "one-value-missing", f"u{N}: exhaustive = true with three variants")
        add1(N, [0, top], None, "few-variants-wide-storage", f"u{N}: two variants, exhaustive omitted")
        add1(N, [top, 5, 0], "false", "few-variants-wide-storage", f"u{N}: three variants, exhaustive = false")
        add1(N, [1, top], "conditional", "few-variants-wide-storage", f"u{N}: conditional with a gated variant", cfg=[None, "on"])
    # discriminants spelled with a type suffix / a sign / substituted through macro_rules! and out of range
    for (bits, ds, txt, rp, wrap, ex) in ((3, [0, 1, 200], {"V2": "200u8"}, "u8", False, None), (3, [0, 1, 2, 3, 4, 5, 6, 8], {"V7": "8u8", "V0": "0u8"}, "u8", False, "true"),
                                          (2, [0, 3], {"V1": "-1"}, None, False, None), (4, [0, 15], {"V1": "-1"}, "i8", False, "false"),
                                          (4, [0, 3, 16], {"V2": "16"}, None, True, None), (2, [0, 1, 2, 4], {"V0": "0", "V3": "4"}, None, True, "true"), (9, [1, 512], {"V1": "0x200"}, None, True, "false")):
        vs = [(f"V{i}", d, None) for i, d in enumerate(ds)]
        e = EnumDef("E", bits, vs, ex)
        e.discr_text, e.repr, e.wrap_macro = dict(txt), rp, wrap
        e.tag = f"u{bits}: discriminants {txt} (values {ds}){' passed through macro_rules!' if wrap else ''}, repr={rp}, exhaustive={ex}"
        C.append((e, "unusual-discriminant-spelling-out-of-range"))
    # unsupported storage sizes
    add(65, [0, 1], None, "bad-storage-size", "u65 storage")
    add(0, [0], None, "bad-storage-size", "u0 storage")
    add(128, [0, 1], None, "bad-storage-size", "u128 storage")
    return C


def h_c10(E: EnumDef, role):
    hs = []
    a = h_enum_from_raw(E)
    a.prop, a.role, a.family = "C10", role, "enum_total_and_exact"
    hs.append(a)
    if E.active:
        t = h_enum_to_raw(E)
        t.prop, t.role, t.family = "C10", role, "enum_variants_representable"
        hs.append(t)
    if E.exhaustive in (None, "false"):
        N = E.bits
        b = [f"let x: u{N} = {H.uint_sym(N)};", f"let res = {E.name}::new_with_raw_value(x);",
             'vcover!(res.is_err(), "VERIF-REACH-err");', "vend!();"]
        hs.append(Harness("err_reachable", "\n".join(b), "reach", "enum_nonexhaustive_err_reachable", "C10", "", (f"{E.name}::new_with_raw_value",), reach=("VERIF-REACH-err",), role=role))
    return hs


def plan_c10(tier, seed):
    us = []
    for i, (e, role) in enumerate(c10_candidates(tier, seed)):
        valid = e.rule_valid()
        hs = h_c10(e, role) if 1 <= e.bits <= 64 else []
        us.append(Unit(f"e{i:05d}", e.decl(), hs, {"enum": e, "sig": e.sig(), "tag": e.tag, "valid": valid, "role": role}))
    ec = full_enum("E", 2)
    h = h_enum_from_raw(ec)
    h.name, h.expect, h.family = "ctl_from_raw", "control", "control"
    h.body = h.body.replace("let x128: u128 = ", "let x128: u128 = 1u128 ^ ", 1)
    en = sparse_enum("E", 3, list(range(8)), None)  # would be all values but is never accepted; use a valid sparse one
    en = sparse_enum("E", 3, [0, 1, 2], None)
    h2 = Harness("ctl_err", f"let x: u3 = {H.uint_sym(3)};\nvassume(x.value() < 3);\nlet res = E::new_with_raw_value(x);\nassert!(res.is_err(), \"VERIF control\");\nvend!();", "control", "control", "C10")
    us.append(Unit("k00000", ec.decl(), [h, h_enum_from_raw(ec)], {"enum": ec, "sig": ec.sig(), "tag": "control enum", "valid": True}))
    us.append(Unit("k00001", en.decl(), [h2], {"enum": en, "sig": en.sig(), "tag": "control enum 2", "valid": True}))
    nvalid = sum(1 for u in us if u.meta["valid"])
    return Plan(us, title="bitenum validation", macro_profiles=("dev", "release"), accept_is_obligation=True, reject_is_obligation=True, chunk=300,
                bounds={"candidates": "%d enum declarations (%d rule-valid, must compile; %d rule-invalid, must be rejected or else satisfy the soundness spec): N in {1,2,3,4,8} (+5,7 thorough) x {all values, one missing, single variant, discriminant == 2^N, 2^N+1 variants} x exhaustive in {true,false,omitted,conditional}; cfg-gated variants with/without conditional; storage-class boundaries 9..64; unsupported storage sizes" % (len(us), nvalid, len(us) - nvalid),
                        "decided per accepted enum, for ALL raw values": "declared exhaustive => conversion returns a variant and the unreachable!() arm cannot be reached; declared non-exhaustive => Err is reachable; every variant's raw_value() does not panic and equals its discriminant",
                        "outside": "cfg-gated variants accepted without `conditional` when all of them are active (the accepted enum is sound); non-literal discriminants"},
                assumptions=COMMON_ASSUME + ["rule oracle written from the property text (model.EnumDef.rule_valid)"])


PLANS.update({"C10": plan_c10})


# ------------------------------------------------------------------------------------------------
# C19: debug option
DBG_STUBS = (("core::fmt::Formatter::debug_struct", "crate::rt::dbgrec::stub_debug_struct"),
             ("core::fmt::DebugStruct::field", "crate::rt::dbgrec::stub_field"),
             ("core::fmt::DebugStruct::finish", "crate::rt::dbgrec::stub_finish"))


def ref_value_expr(ft, bits):
    """expression of the getter type built from reference bits (u128 expr), independent of the macro
    where possible"""
    k = ft.kind
    if k == "bool":
        return f"(({bits}) == 1)"
    if k == "uint":
        return H.uint_from_u128(ft.width, bits)
    if k == "int":
        return f"(spec::sext({bits}, {ft.width}) as i{ft.width})"
    if k in ("enum", "optenum"):
        E = ft.enum
        arms = " ".join(f"{d:#x}u128 => Some({E.name}::{n})," for (n, d) in E.active) + " _ => None,"
        m = f"(match ({bits}) {{ {arms} }})"
        if k == "enum":
            return f"{m}.unwrap()"
        prim = f"u{storage_bits(ft.width)}"
        return f"(match {m} {{ Some(e) => Ok(e), None => Err(({bits}) as {prim}) }})"
    if k == "custom":
        return f"{ft.inner_name}({H.uint_from_u128(ft.width, bits)})"
    if k == "nested":
        return f"{ft.inner_name}::new_with_raw_value({H.uint_from_u128(ft.width, bits)})"
    raise ValueError(k)


def h_c19(L):
    S = L.name
    b = H.raw_sym(L)
    b.append(f"let x = {S}::new_with_raw_value(r);")
    for f in L.fields:
        b.append(f"let w_{f.name}: u128 = spec::get(r128, {H.rng(f.ranges)}, 0u32);")
    # symbolic part: what the expansion hands to the DebugStruct builder
    b.append("#[cfg(kani)]")
    b.append("{")
    b.append("    use core::fmt::Write;")
    b.append("    crate::rt::dbgrec::reset();")
    b.append('    let res = write!(crate::rt::dbgrec::NullSink, "{:?}", x);')
    b.append('    assert!(res.is_ok(), "VERIF Debug::fmt returned an error");')
    b.append(f'    assert!(crate::rt::dbgrec::struct_name_is("{S}"), "VERIF debug_struct not called exactly once with the struct name");')
    b.append(f'    assert!(crate::rt::dbgrec::nfields() == {len(L.fields)}, "VERIF number of fields handed to the formatter != number of declared fields");')
    b.append('    assert!(crate::rt::dbgrec::finish_calls() == 1, "VERIF finish() not called exactly once");')
    for i, f in enumerate(L.fields):
        b.append(f'    assert!(crate::rt::dbgrec::field_name_is({i}, "{f.name}"), "VERIF field #{i} is not named {f.name} (declaration order)");')
        b.append(f"    let v_{f.name}: Option<{f.ty.getter_ty()}> = crate::rt::dbgrec::value::<{f.ty.getter_ty()}>({i});")
        b.append(f'    assert!(v_{f.name}.is_some(), "VERIF value of field {f.name} does not have the getter\'s type");')
        b.append(f"    let v_{f.name} = v_{f.name}.unwrap();")
        for ln in H.getter_check(f.ty, f"v_{f.name}", f"w_{f.name}", f"VERIF Debug value of {f.name} != getter value"):
            b.append("    " + ln)
    b.append("}")
    # native part: the real text against a #[derive(Debug)] reference with the same names
    b.append("#[cfg(not(kani))]")
    b.append("{")
    b.append(f"    let want = vref::{S} {{ " + ", ".join(f"{f.name}: {ref_value_expr(f.ty, 'w_' + f.name)}" for f in L.fields) + " };")
    b.append('    let (a1, b1) = (format!("{:?}", x), format!("{:?}", want));')
    b.append('    assert!(a1 == b1, "VERIF {{:?}} text differs from the reference struct: {} vs {}", a1, b1);')
    b.append('    let (a2, b2) = (format!("{:#?}", x), format!("{:#?}", want));')
    b.append('    assert!(a2 == b2, "VERIF {{:#?}} text differs from the reference struct: {} vs {}", a2, b2);')
    b.append("}")
    b.append("vend!();")
    return Harness("debug_fmt", "\n".join(b), "pass", "debug_fields", "C19", "", (f"<{S} as Debug>::fmt", "core::fmt::Formatter::debug_struct [stubbed]", "core::fmt::DebugStruct::field [stubbed]", "core::fmt::DebugStruct::finish [stubbed]") + tuple(f"{S}::{f.name}" for f in L.fields), stubs=DBG_STUBS)


def c19_layouts(tier, seed):
    rnd = random.Random(1919)
    srnd = random.Random(seed * 7 + 19)
    Ls = []

    def mk(W, specs, tag):
        """specs: list of (kind, lo, w)"""
        aux, fields = [], []
        for i, (kind, lo, w) in enumerate(specs):
            name = ["ready", "_b", "f", "d", "rr", "i", "_reserved_5_7", "fmt"][i]
            if kind == "bool":
                ty = T_bool()
            elif kind == "uint":
                ty = T_uint(w)
            elif kind == "int":
                ty = T_int(w)
            elif kind == "enum":
                e = full_enum(f"E{i}", w)
                e.derives = "Debug"
                aux.append(e)
                ty = FType("enum", w, e)
            elif kind == "optenum":
                top = (1 << w) - 1
                e = sparse_enum(f"E{i}", w, sorted(set([0, top // 2 + 1, top])), None)
                e.derives = "Debug"
                aux.append(e)
                ty = FType("optenum", w, e)
            elif kind == "custom":
                aux.append("#[derive(Debug)]\n" + custom_decl(f"Cust{i}", w))
                ty = FType("custom", w, None, f"Cust{i}")
            else:
                aux.append(nested_decl(f"Inner{i}", w).replace(f"#[bitfield(u{w})]", f"#[bitfield(u{w}, debug)]"))
                ty = FType("nested", w, None, f"Inner{i}")
            fields.append(Field(name, ty, [(lo, w)] if not isinstance(lo, list) else lo, None, "r" if i % 3 == 2 else "rw", doc_hidden=(i % 4 == 1), doc=("a documented field" if i % 4 == 3 else None)))
        return Layout(W, fields, debug=True, aux=aux, tag=tag)

    Ls.append(mk(8, [("uint", 0, 4), ("uint", 4, 4)], "two nibbles on u8"))
    Ls.append(mk(8, [("bool", 0, 1), ("uint", 1, 3), ("enum", 4, 2), ("optenum", 6, 2)], "bool,u3,enum,Option<enum> on u8"))
    Ls.append(mk(16, [("bool", 0, 1), ("uint", 1, 3), ("int", 4, 8), ("enum", 12, 2), ("optenum", 13, 3)], "bool,u3,i8,enum,Option<enum> (overlapping) on u16"))
    Ls.append(mk(16, [("uint", 8, 8), ("uint", 0, 8)], "two u8 (documented test shape) on u16"))
    Ls.append(mk(32, [("int", 16, 16), ("custom", 3, 5), ("nested", 8, 6), ("bool", 31, 1), ("uint", 0, 32)], "i16, custom, nested, top bool, full-width u32 on u32"))
    Ls.append(mk(32, [("uint", [(25, 7), (7, 5)], 12), ("optenum", 0, 8), ("uint", 20, 1)], "list field, native-storage Option<enum>, u1 on u32"))
    Ls.append(mk(24, [("uint", 0, 9), ("int", 16, 8), ("bool", 23, 1)], "arbitrary base u24"))
    Ls.append(mk(9, [("uint", 0, 9), ("bool", 8, 1), ("enum", 1, 1)], "arbitrary base u9 incl. 1-bit enum"))
    # struct names that a generated impl might also import for itself
    for nm in ("Result", "Formatter"):
        Ln = Layout(16, [Field("a", T_uint(8), [(0, 8)], None, "rw"), Field("b", T_bool(), [(8, 1)], None, "r"), Field("c", T_int(8), [(8, 8)], None, "rw")], debug=True, tag=f"debug struct named {nm}")
        Ln.name = nm
        Ls.append(Ln)
    # more than 16 fields (17 here; 20 in the thorough tier)
    L17 = Layout(32, [Field(f"b{i}", T_bool() if i % 4 else T_uint(1), [(i, 1)], None, "rw") for i in range(16)] + [Field("tail", T_uint(8), [(24, 8)], None, "r")], debug=True, tag="17 fields on u32")
    Ls.append(L17)
    if tier != "quick":
        Ls.append(Layout(64, [Field(f"n{i}", T_uint(3), [(3 * i, 3)], None, "rw") for i in range(20)], debug=True, tag="20 u3 fields on u64"))
        Ls.append(mk(64, [("uint", 0, 64), ("int", 0, 64), ("int", 32, 32), ("uint", 1, 63), ("bool", 63, 1)], "u64 wide fields"))
        Ls.append(mk(128, [("uint", 0, 128), ("int", 0, 128), ("uint", 27, 100), ("bool", 127, 1)], "u128 wide fields"))
        Ls.append(mk(65, [("uint", 0, 65), ("int", 1, 64), ("bool", 64, 1)], "arbitrary base u65"))
        Ls.append(mk(8, [("bool", i, 1) for i in range(8)], "eight bools on u8"))
        Ls.append(mk(32, [("uint", 4 * i, 4) for i in range(8)], "eight nibbles on u32"))
        for k in range(14):
            W = srnd.choice([8, 16, 32, 12, 24, 31])
            n = srnd.randint(1, 6)
            specs = []
            for i in range(n):
                kind = srnd.choice(["bool", "uint", "uint", "int", "enum", "optenum", "custom", "nested"])
                if kind == "bool":
                    w = 1
                elif kind == "int":
                    w = srnd.choice([x for x in (8, 16, 32) if x <= W] or [0])
                    if w == 0:
                        kind, w = "uint", srnd.randint(1, W)
                elif kind == "enum":
                    w = srnd.randint(1, 3)
                elif kind == "optenum":
                    w = srnd.randint(2, min(W, 9))
                else:
                    w = srnd.randint(1, W)
                specs.append((kind, srnd.randint(0, W - w), w))
            Ls.append(mk(W, specs, f"random debug layout on u{W}"))
    return Ls


def c19_ref_module(L):
    out = ["pub mod vref {", "    use super::*;", "    #[derive(Debug)]", f"    pub struct {L.name} {{"]
    for f in L.fields:
        out.append(f"        pub {f.name}: {f.ty.getter_ty()},")
    out += ["    }", "}"]
    # a trait in scope whose BY-VALUE methods carry the names of the fields: the generated Debug impl must
    # keep calling the inherent getters
    out.append("pub trait VSampled: Sized {")
    for f in L.fields:
        out.append(f"    fn {f.name}(self) -> &'static str {{ \"VERIF-TRAIT-METHOD\" }}")
    out += ["}", f"impl VSampled for {L.name} {{}}"]
    return "\n".join(out)


def plan_c19(tier, seed):
    Ls = c19_layouts(tier, seed) + [L for L in surface_layouts() if L.debug and L.base in (32, 24)]
    us = []
    native = []
    rnd = random.Random(seed + 190)
    for i, L in enumerate(Ls):
        h = h_c19(L)
        uid = f"d{i:05d}"
        us.append(Unit(uid, L.decl() + "\n" + c19_ref_module(L), [h], {"layout": L, "sig": L.sig(), "tag": L.tag, "valid": True}))
        nb = L.storage // 8
        raws = [0, mask(L.base), int("a5" * 16, 16) & mask(L.base), int("5a" * 16, 16) & mask(L.base)] + [rnd.getrandbits(L.base) for _ in range(4 if tier == "quick" else 12)]
        for rv in raws:
            native.append((uid, "debug_fmt", [list(rv.to_bytes(nb, "little"))]))
    # controls: the reference value of one field is taken from a shifted range (affects both the
    # symbolic comparison and the native text comparison)
    L0 = us[3].meta["layout"]
    hc = h_c19(L0)
    hc.name, hc.expect, hc.family = "ctl_debug", "control", "control"
    f1 = L0.fields[1]
    hc.body = hc.body.replace(f"let w_{f1.name}: u128 = spec::get(r128, {H.rng(f1.ranges)}, 0u32);", f"let w_{f1.name}: u128 = spec::get(r128, {H.rng([(f1.ranges[0][0] + 1, f1.ranges[0][1])])}, 0u32);", 1)
    us[3].harnesses.append(hc)
    L2 = us[0].meta["layout"]
    hc2 = h_c19(L2)
    hc2.name, hc2.expect, hc2.family = "ctl_debug_value", "control", "control"
    hc2.body = hc2.body.replace(f"let w_{L2.fields[0].name}: u128 = spec::get(r128, {H.rng(L2.fields[0].ranges)}, 0u32);", f"let w_{L2.fields[0].name}: u128 = spec::get(r128, {H.rng([(L2.fields[0].ranges[0][0] + 1, L2.fields[0].ranges[0][1])])}, 0u32);", 1)
    us[0].harnesses.append(hc2)
    return Plan(us, title="debug option", stubbing=True, extra_rt=("dbgrec.rs",), chunk=40, harness_timeout=900, native_cases=native,
                bounds={"inputs": "all raw values per layout (symbolic) for the sequence of calls made on the formatter; %d concrete raw values per layout for the real rendered text ({:?} and {:#?})" % (8 if tier == "quick" else 16),
                        "layouts": "%d debug layouts with <= 8 readable scalar fields (bool, uN, native, signed, enum, Option<enum>, custom, nested, list-typed) on u8/u16/u32/u9/u24%s" % (len(us), "" if tier == "quick" else "/u64/u128/u65 + random shapes"),
                        "stubs": "core::fmt::Formatter::debug_struct, DebugStruct::field, DebugStruct::finish replaced by recorders (struct name, field names in order, a byte copy of each value, finish count)"},
                assumptions=COMMON_ASSUME + ["core's rendering of a DebugStruct (names, separators, pretty mode) is trusted; it is exercised for real in the native executions, which compare the text with a #[derive(Debug)] struct of the same shape",
                                             "the recorded value bytes are reinterpreted as the declared getter type (size must match)"])


PLANS.update({"C19": plan_c19})


# ------------------------------------------------------------------------------------------------
# universal random structs: the same generator feeds every property with its own harness family
def universal_units(prop, tier, seed, want, pick_fields, harnesses, struct_filter=None, decl_suffix="", pre_fn=None, salt=0):
    """want: number of structs; pick_fields(L) -> fields this property cares about; harnesses(L, fields) -> [Harness]"""
    us, k, tries = [], 0, 0
    pool = universal_layouts(seed, want * 12, salt=salt + sum(ord(c) for c in prop))
    for L in pool:
        if len(us) >= want:
            break
        if struct_filter and not struct_filter(L):
            continue
        fs = pick_fields(L)
        if not fs:
            continue
        hs = [h for h in harnesses(L, fs) if h is not None]
        if not hs:
            continue
        u = Unit(f"u{len(us):05d}", L.decl() + decl_suffix, hs, {"layout": L, "sig": L.sig(), "tag": L.tag, "valid": True, "origin": "universal"}, pre_fn(L) if pre_fn else "")
        us.append(u)
    return us


def n_universal(tier):
    return 30 if tier == "quick" else 300


_plan_c01, _plan_c02, _plan_c03, _plan_c04, _plan_c05, _plan_c08 = plan_c01, plan_c02, plan_c03, plan_c04, plan_c05, plan_c08
_plan_c11, _plan_c12, _plan_c13, _plan_c14, _plan_c16 = plan_c11, plan_c12, plan_c13, plan_c14, plan_c16


def _with_universal(base_plan, prop, pick, harn, struct_filter=None, decl_suffix="", pre_fn=None, n_scale=1.0, profiles_note=""):
    def plan(tier, seed):
        pl = base_plan(tier, seed)
        uu = universal_units(prop, tier, seed, int(n_universal(tier) * n_scale), pick, harn, struct_filter, decl_suffix, pre_fn)
        pl.units = list(pl.units) + uu
        pl.bounds = dict(pl.bounds)
        pl.bounds["universal random structs"] = f"{len(uu)} seeded random structs (seed {seed}) drawn from a generator that varies every declaration dimension at once (base, field kinds and type spelling, single bits / ranges / lists of every flavour, arrays with default / explicit / gapped strides and any argument order, overlapping or tiled fields, access, default forms and constant names, legacy syntax); harness type errors and rejections of these units are only noted, the structured corpus carries those obligations"
        return pl
    return plan


plan_c01 = _with_universal(_plan_c01, "C01", lambda L: [f for f in L.fields if f.readable], lambda L, fs: [H.h_get(L, f, "C01") for f in fs])
plan_c02 = _with_universal(_plan_c02, "C02", lambda L: [f for f in L.fields if f.writable], lambda L, fs: [H.h_set(L, f, "C02") for f in fs] + [H.h_set2(L, fs[0], "C02")])
plan_c03 = _with_universal(_plan_c03, "C03", lambda L: [f for f in L.fields if f.array], lambda L, fs: sum([field_harnesses(L, f, "C03") for f in fs], []))
plan_c04 = _with_universal(_plan_c04, "C04", lambda L: [f for f in L.fields if len(f.ranges) > 1], lambda L, fs: sum([field_harnesses(L, f, "C04", twice=True) for f in fs], []))
plan_c05 = _with_universal(_plan_c05, "C05", lambda L: [f for f in L.fields if f.ty.kind == "int"], lambda L, fs: sum([field_harnesses(L, f, "C05", oob=False, twice=True) + [h_signed_extra(L, f) if f.writable and f.readable else None] for f in fs], []), n_scale=0.7)
plan_c08 = _with_universal(_plan_c08, "C08", lambda L: [f for f in L.fields if f.ty.kind in ("enum", "optenum", "custom", "nested")], lambda L, fs: sum([field_harnesses(L, f, "C08", oob=False) for f in fs], []))
plan_c16 = _with_universal(_plan_c16, "C16", lambda L: L.fields, lambda L, fs: [H.h_total(L, f, "C16") for f in fs if (f.readable or f.writable)] + sum([[H.h_oob(L, f, "C16", op) for op in ((("get",) if f.readable else ()) + (("with", "set") if f.writable else ()))] for f in fs if f.array], []))
plan_c12 = _with_universal(_plan_c12, "C12", lambda L: [f for f in L.fields if f.writable], lambda L, fs: [h_history(L, 1, "step"), h_history(L, 2, "history2")] + h_commute(L), n_scale=0.6)
plan_c13 = _with_universal(_plan_c13, "C13", lambda L: [f for f in L.fields if f.writable], lambda L, fs: [h_builder(L)], struct_filter=lambda L: L.builder_expected() and sum((f.K or 1) for f in L.fields if f.writable) <= 24)
plan_c14 = _with_universal(_plan_c14, "C14", lambda L: [f for f in L.fields if f.writable], lambda L, fs: [h_c14_probe(L, L.builder_expected()), h_c14_sound(L, "universal")], struct_filter=lambda L: sum((f.K or 1) for f in L.fields if f.writable) <= 24, decl_suffix="\n" + C14_PRE, n_scale=0.7)


def _c11_pre(L):
    pre = f"pub type VStorage = u{L.storage};\n" + VRES
    for a in L.aux:
        if isinstance(a, EnumDef):
            pre += f"\nimpl VEnumBits for {a.name} {{ fn vbits(self) -> u128 {{ self as u128 }} }}"
    return pre


plan_c11 = _with_universal(_plan_c11, "C11", lambda L: [f for f in L.fields if f.writable], lambda L, fs: [h_c11_base(L)] + [h_c11_step(L, f) for f in fs], struct_filter=lambda L: not L.native, decl_suffix="\n" + C11_PRE, pre_fn=_c11_pre, n_scale=0.7)

PLANS.update({"C01": plan_c01, "C02": plan_c02, "C03": plan_c03, "C04": plan_c04, "C05": plan_c05, "C08": plan_c08, "C11": plan_c11, "C12": plan_c12, "C13": plan_c13, "C14": plan_c14, "C16": plan_c16})
