"""Per-property corpus + harness plans."""
from __future__ import annotations
import random
from .model import *
from .corpus import *
from . import harness as H
from .engine import Unit
from .run import Plan


def units_from(layouts, hfun, prefix="l", start=0, valid=True, role=""):
    us = []
    for i, L in enumerate(layouts):
        hs = hfun(L)
        us.append(Unit(f"{prefix}{start + i:05d}", L.decl(), hs, {"layout": L, "sig": L.sig(), "tag": L.tag, "valid": valid, "role": role}))
    return us


COMMON_ASSUME = [
    "Kani 0.68 MIR->GOTO translation, CBMC 6.11 and CaDiCaL are sound; rustc nightly-2026-08-21 front end",
    "arbitrary-int 1.3.0 as locked in /repo/Cargo.lock is the library the expansion links against (its real bodies are executed symbolically)",
    "reference register rt/spec.rs (bit-by-bit gather/scatter, validated natively on the repository's documented examples on every run)",
    "x86_64, 64-bit usize",
    "harness assumptions: value-range masks when building arbitrary-int values (so that every value of the type is covered), index < K (or >= K) for array harnesses",
]


# ------------------------------------------------------------------------------------------------
def c01_layouts(tier, seed):
    Ls = []
    if tier == "quick":
        for W in (8, 16):
            Ls += pack(W, contiguous_fields(W, all_ranges(W), access="r"), tag=f"all ranges on u{W}")
        for W in (32, 64, 128):
            Ls += pack(W, contiguous_fields(W, boundary_ranges(W), access="r"), tag=f"boundary ranges on u{W}")
        arb = QUICK_ARB
    else:
        for W in NATIVE_BASES:
            Ls += pack(W, contiguous_fields(W, all_ranges(W), access="r"), per=8, tag=f"all ranges on u{W}")
        arb = ALL_ARB
    for N in arb:
        Ls += pack(N, contiguous_fields(N, arb_base_ranges(N), access="r"), tag=f"boundary ranges on arbitrary base u{N}")
    if tier != "quick":
        rnd = random.Random(seed)
        for N in rnd.sample(ALL_ARB, 12):
            Ls += pack(N, contiguous_fields(N, all_ranges(N) if N <= 24 else rnd.sample(all_ranges(N), 200), access="r"), per=8, tag=f"ranges on arbitrary base u{N}")
    return Ls


def plan_c01(tier, seed):
    Ls = c01_layouts(tier, seed)
    us = units_from(Ls, lambda L: [H.h_get(L, f, "C01") for f in L.fields])
    # negative controls on three real layouts (first, middle, last)
    for k in (0, len(us) // 2, len(us) - 1):
        L = us[k].meta["layout"]
        us[k].harnesses.append(H.ctl_get(L, L.fields[0], "C01"))
    return Plan(us, title="getter == declared bits", chunk=260 if tier == "quick" else 700,
                bounds={"raw values": "all 2^N per layout (symbolic)", "layouts": "this run's corpus: " + ("all lo..=hi on u8,u16; boundary placements on u32,u64,u128; 14 arbitrary-int bases" if tier == "quick" else "all lo..=hi on u8..u128; all 122 arbitrary-int bases (boundary placements) + 12 random ones swept"),
                        "loops": "none in the code under test; reference loops have compile-time bounds <= 128 and are fully unwound (unwinding assertions on)"},
                assumptions=COMMON_ASSUME, exhaustive=False)


PLANS = {"C01": plan_c01}


def field_harnesses(L, f, prop, oob=True, get=True, sett=True):
    hs = []
    if get and f.readable:
        hs.append(H.h_get(L, f, prop))
    if sett and f.writable:
        hs.append(H.h_set(L, f, prop))
    if oob and f.array:
        if f.readable:
            hs.append(H.h_oob(L, f, prop, "get"))
        if f.writable:
            hs.append(H.h_oob(L, f, prop, "with"))
            hs.append(H.h_oob(L, f, prop, "set"))
    return hs


def add_controls(us, prop, kinds=("get", "set", "oob")):
    """negative controls on real layouts of this run (first / middle / last that qualify)"""
    n = 0
    picks = [us[0], us[len(us) // 2], us[-1]]
    for k, u in enumerate(picks):
        L = u.meta["layout"]
        kind = kinds[k % len(kinds)]
        done = False
        for f in L.fields:
            if kind == "get" and f.readable:
                u.harnesses.append(H.ctl_get(L, f, prop)); done = True; break
            if kind == "set" and f.writable:
                u.harnesses.append(H.ctl_set(L, f, prop)); done = True; break
            if kind == "oob" and f.array and f.readable:
                u.harnesses.append(H.ctl_oob(L, f, prop, "get")); done = True; break
        if not done:
            for f in L.fields:
                if f.readable:
                    u.harnesses.append(H.ctl_get(L, f, prop)); done = True; break
                if f.writable:
                    u.harnesses.append(H.ctl_set(L, f, prop)); done = True; break
        n += done
    return n


def alt_access(fields, choices=("rw", "w", "rw")):
    for i, f in enumerate(fields):
        f.access = choices[i % len(choices)]
    return fields


# ------------------------------------------------------------------------------------------------
def c02_layouts(tier, seed):
    Ls = []
    if tier == "quick":
        Ls += pack(8, alt_access(contiguous_fields(8, all_ranges(8))), tag="all ranges on u8")
        rnd = random.Random(1)
        r16 = all_ranges(16)
        Ls += pack(16, alt_access(contiguous_fields(16, [r for r in r16 if r[0] in (0, 1, 7, 8) or r[0] + r[1] == 16 or r[1] in (1, 8)])), tag="ranges on u16")
        for W in (32, 64, 128):
            Ls += pack(W, alt_access(contiguous_fields(W, boundary_ranges(W))), tag=f"boundary ranges on u{W}")
        arb = QUICK_ARB
    else:
        for W in NATIVE_BASES:
            Ls += pack(W, alt_access(contiguous_fields(W, all_ranges(W))), per=8, tag=f"all ranges on u{W}")
        arb = ALL_ARB
    for N in arb:
        Ls += pack(N, alt_access(contiguous_fields(N, arb_base_ranges(N))), tag=f"boundary ranges on arbitrary base u{N}")
    return Ls


def plan_c02(tier, seed):
    Ls = c02_layouts(tier, seed)
    us = units_from(Ls, lambda L: [H.h_set(L, f, "C02") for f in L.fields])
    add_controls(us, "C02", kinds=("set", "set", "set"))
    return Plan(us, title="setter == reference scatter", chunk=200 if tier == "quick" else 600,
                bounds={"inputs": "all raw values x all field values per layout (symbolic)", "forms": "with_ and set_", "layouts": "this run's corpus (see harness_families / layouts_generated)"},
                assumptions=COMMON_ASSUME)


# ------------------------------------------------------------------------------------------------
E2 = lambda: full_enum("E2", 2)
E3N = lambda: sparse_enum("E3N", 3, [0, 1, 5, 7], None)
E1 = lambda: full_enum("E1", 1)


def c03_layouts(tier, seed):
    rnd = random.Random(seed * 7919 + 3)
    Ls = []

    def mk(W, shape, ty=None, access="rw", explicit=None, tag="", aux=None):
        lo, w, s, K = shape
        f = array_field(lo, w, s, K, ty, access, explicit)
        L = Layout(W, [f], tag=tag or f"array lo={lo} w={w} stride={s} K={K} on u{W}", aux=aux or [])
        return L

    sh8 = array_shapes(8, max_w=4, max_K=8)
    if tier == "quick":
        pick8 = [x for x in sh8 if (x[3] - 1) * x[2] + x[0] + x[1] == 8 or x[0] == 0]  # fill exactly or start at 0
        pick8 = pick8 if len(pick8) <= 70 else random.Random(5).sample(pick8, 70)
    else:
        pick8 = sh8
    for i, x in enumerate(pick8):
        tys = elem_type_variants(x[1])
        Ls.append(mk(8, x, tys[i % len(tys)], ["rw", "rw", "r", "w"][i % 4]))
    sh16 = array_shapes(16, max_w=8, max_K=16)
    pick16 = [x for x in sh16 if (x[3] - 1) * x[2] + x[0] + x[1] == 16]
    if tier == "quick":
        pick16 = random.Random(6).sample(pick16, 30)
    else:
        pick16 = pick16 + rnd.sample([x for x in sh16 if x not in pick16], 400)
    for i, x in enumerate(pick16):
        tys = elem_type_variants(x[1])
        Ls.append(mk(16, x, tys[i % len(tys)]))
    for W in (32, 64, 128):
        for i, x in enumerate(fill_shapes(W)):
            for ty in elem_type_variants(x[1]):
                Ls.append(mk(W, x, ty))
    bases = QUICK_ARB if tier == "quick" else ALL_ARB
    for N in bases:
        if N < 2:
            continue
        shapes = fill_shapes(N)
        if tier == "quick":
            shapes = shapes[:3]
        for x in shapes:
            for ty in elem_type_variants(x[1])[:1 if tier == "quick" else 2]:
                Ls.append(mk(N, x, ty))
    # enum-typed elements (exhaustive and Option) and explicit stride == width, legacy syntax
    for W in (8, 16, 32, 64, 128) + ((24, 65) if tier == "quick" else tuple(ALL_ARB[::7])):
        if W >= 8:
            e = E2()
            Ls.append(mk(W, (W - 8, 2, 2, 4), FType("enum", 2, e), aux=[e], tag=f"exhaustive 2-bit enum array ending at top of u{W}"))
            e = E3N()
            Ls.append(mk(W, (1, 3, 3, 2), FType("optenum", 3, e), aux=[e], tag=f"Option<enum> array on u{W}"))
            e = E1()
            Ls.append(mk(W, (0, 1, 2, 4), FType("enum", 1, e), aux=[e], tag=f"1-bit enum array with gaps on u{W}"))
            L = mk(W, (0, 4, 4, 2), T_uint(4), explicit=True, tag=f"explicit stride == width, legacy stride syntax on u{W}")
            L.legacy = True
            Ls.append(L)
    if tier != "quick":
        for W in (32, 64, 128):
            sh = array_shapes(W, max_w=W // 2, max_K=16)
            for i, x in enumerate(rnd.sample(sh, 150)):
                tys = elem_type_variants(x[1])
                Ls.append(mk(W, x, tys[i % len(tys)]))
    return Ls


def plan_c03(tier, seed):
    Ls = c03_layouts(tier, seed)
    us = units_from(Ls, lambda L: sum([field_harnesses(L, f, "C03") for f in L.fields], []))
    add_controls(us, "C03", kinds=("oob", "get", "set"))
    return Plan(us, title="arrays: element i at lo+i*stride, bounds-checked", chunk=230 if tier == "quick" else 600,
                bounds={"inputs": "all raw values, all element values, all indices (in range: i<K; out of range: all 2^64-K others) per layout", "layouts": "array shapes of this run (exhaustive small shapes on u8, fill-exactly / K=2 / gap shapes elsewhere); K <= 16 except exact fills"},
                assumptions=COMMON_ASSUME + ["an out-of-range index must be stopped by a panic that does not depend on overflow checks (an `attempt to ... with overflow` failure alone counts as a violation, confirmed in the release replay)"])


# ------------------------------------------------------------------------------------------------
def c04_layouts(tier, seed):
    rnd = random.Random(seed * 104729 + 4)
    Ls = []
    bases = [8, 16, 32, 64, 128] + ([7, 24, 33, 100] if tier == "quick" else ALL_ARB[::5])
    for W in bases:
        for (tag, ty, rs) in documented_lists(W):
            if max(lo + n for lo, n in rs) <= W:
                Ls.append(Layout(W, [Field("f", ty, rs, None, "rw")], tag=f"{tag} on u{W}"))
    # random lists
    nrand = 110 if tier == "quick" else 1500
    srnd = random.Random(4242)  # the structured-random part is fixed; the seed adds more on top
    for k in range(nrand):
        r = srnd if k < nrand * 2 // 3 else rnd
        W = r.choice([8, 16, 32, 64, 128, 128, r.choice(ALL_ARB)])
        if W < 2:
            continue
        wmax = W
        w = r.choice([2, 3, 4, 5, 7, 8, 8, 9, 12, 16, 16, 24, 32, 32, 33, 63, 64, 64, 65, 100, 127, 128, r.randint(2, 128)])
        if w > wmax:
            w = r.randint(2, wmax)
        rs = random_list(r, W, w)
        ty = list_type_for(r, w)
        Ls.append(Layout(W, [Field("f", ty, rs, None, r.choice(["rw", "rw", "rw", "r", "w"]))], tag=f"random list w={w} on u{W}"))
    # arrays of lists: disjoint elements and interleaving elements
    arr = []
    arr.append((8, T_uint(2), [(0, 1), (4, 1)], (4, 1, True), "interleaving: element i = bits {i, 4+i}"))
    arr.append((8, T_uint(4), [(0, 1), (2, 1), (4, 1), (6, 1)], (2, 1, True), "interleaving even/odd bits (documented test shape)"))
    arr.append((16, T_uint(4), [(0, 2), (8, 2)], (4, 2, True), "interleaving halves"))
    arr.append((32, T_uint(8), [(0, 4), (16, 4)], (4, 4, True), "nibble pairs"))
    arr.append((32, T_int(8), [(4, 4), (0, 4)], (4, 8, True), "signed swapped nibbles per byte"))
    arr.append((64, T_uint(16), [(8, 8), (0, 8)], (4, 16, True), "byte swap per u16 lane"))
    arr.append((64, T_uint(12), [(0, 5), (8, 7)], (4, 16, True), "disjoint lanes with gaps"))
    arr.append((128, T_uint(32), [(16, 16), (0, 16)], (4, 32, True), "u128 lanes, swapped halves"))
    arr.append((128, T_uint(64), [(32, 32), (0, 32)], (2, 64, True), "u128: 64-bit elements"))
    arr.append((128, T_int(64), [(0, 32), (32, 32)], (2, 64, True), "u128: signed 64-bit elements"))
    arr.append((24, T_uint(3), [(0, 1), (8, 1), (16, 1)], (8, 1, True), "arbitrary base: bit planes"))
    arr.append((100, T_uint(10), [(5, 5), (0, 5)], (10, 10, True), "arbitrary base u100: ten lanes, fills exactly"))
    arr.append((63, T_uint(7), [(0, 3), (4, 4)], (7, 9, True), "arbitrary base u63: gaps, last ends at top"))
    for (W, ty, rs, a, tag) in arr:
        Ls.append(Layout(W, [Field("a", ty, rs, a, "rw")], tag=f"array of lists: {tag}"))
        Ls.append(Layout(W, [Field("a", ty, list(reversed(rs)), a, "rw")], tag=f"array of lists (reversed order): {tag}"))
    nr = 25 if tier == "quick" else 300
    for k in range(nr):
        r = srnd if k < nr * 2 // 3 else rnd
        W = r.choice([16, 32, 64, 128, r.choice([n for n in ALL_ARB if n >= 12])])
        K = r.randint(2, 6)
        span = W // K
        if span < 2:
            continue
        w = r.randint(2, span)
        rs = random_list(r, span, w, parts=r.randint(2, min(4, w)))
        off = r.randint(0, W - span * K)
        rs = [(lo + off, n) for (lo, n) in rs]
        Ls.append(Layout(W, [Field("a", list_type_for(r, w), rs, (K, span, True), "rw")], tag=f"random array of lists K={K} stride={span} on u{W}"))
    return Ls


def plan_c04(tier, seed):
    Ls = c04_layouts(tier, seed)
    us = units_from(Ls, lambda L: sum([field_harnesses(L, f, "C04") for f in L.fields], []))
    add_controls(us, "C04", kinds=("get", "set", "get"))
    return Plan(us, title="non-contiguous gather/scatter", chunk=220 if tier == "quick" else 600,
                bounds={"inputs": "all raw values x all field values x all indices per layout", "lists": "2..8 pairwise-disjoint items, any order; arrays of lists with K <= 10", "layouts": "documented shapes on every base where they fit + seeded random lists + arrays of lists"},
                assumptions=COMMON_ASSUME + ["lists naming the same bit twice are outside the guarantee and not generated here"])


# ------------------------------------------------------------------------------------------------
def c05_layouts(tier, seed):
    rnd = random.Random(seed * 31337 + 5)
    Ls = []
    bases = [8, 16, 32, 64, 128] + ([9, 12, 24, 33, 48, 65, 100, 127] if tier == "quick" else ALL_ARB)
    for N in (8, 16, 32, 64, 128):
        for W in bases:
            if W < N:
                continue
            los = sorted(set([0, W - N, (W - N) // 2, 1 if W - N >= 1 else 0, 3 if W - N >= 3 else 0]))
            if tier != "quick" and W in NATIVE_BASES:
                los = list(range(0, W - N + 1))
            fs = [Field("f", T_int(N), [(lo, N)], None, "rw") for lo in los]
            Ls += pack(W, fs, per=4, tag=f"i{N} plain on u{W}")
            if W >= 2 * N:
                K = W // N
                Ls.append(Layout(W, [Field("a", T_int(N), [(0, N)], (K, N, False), "rw")], tag=f"i{N} array default stride K={K} on u{W}"))
                Ls.append(Layout(W, [Field("a", T_int(N), [(W - 2 * N, N)], (2, N, True), "rw")], tag=f"i{N} array K=2 at top on u{W}"))
            if W >= 2 * N + 2:
                s = N + 1
                K = (W - N) // s + 1
                Ls.append(Layout(W, [Field("a", T_int(N), [(W - ((K - 1) * s + N), N)], (K, s, True), "rw")], tag=f"i{N} array stride {s} (gaps) on u{W}"))
            if W >= N + 2:
                h = N // 2
                Ls.append(Layout(W, [Field("f", T_int(N), [(0, h), (W - h, h)], None, "rw")], tag=f"i{N} two-range list low,high on u{W}"))
                Ls.append(Layout(W, [Field("f", T_int(N), [(W - h, h), (1, h)], None, "rw")], tag=f"i{N} two-range list high,low on u{W}"))
                Ls.append(Layout(W, [Field("f", T_int(N), [(1, 1), (W - N + 1, N - 1)], None, "rw")], tag=f"i{N} list with 1-bit first item on u{W}"))
            if W >= 2 * N + 2:
                Ls.append(Layout(W, [Field("a", T_int(N), [(N // 2, N // 2), (0, N // 2)], (2, N + 1, True), "rw")], tag=f"i{N} array of lists on u{W}"))
    return Ls


def h_signed_extra(L, f):
    """C05: negative arguments must not disturb any bit outside the field (explicit witness that
    negative values are reachable and covered)"""
    b = H.raw_sym(L)
    b.append(f"let x = {L.name}::new_with_raw_value(r);")
    il, i, sh = H.idx_lines(f)
    b += il
    b.append(f"let v: i{f.ty.width} = vany();")
    b.append("vassume(v < 0);")
    b.append(f"let y = {H.call_with(f, 'x', i, 'v')};")
    b.append(f"let m: u128 = spec::mask({H.rng(f.ranges)}, {sh});")
    b.append(f'assert!(({H.raw_of(L, "y")} & !m) == (r128 & !m), "VERIF negative value leaked outside the field");')
    b.append(f"let g: i{f.ty.width} = {H.call_get(f, 'y', i)};")
    b.append('assert!(g == v, "VERIF negative value does not read back");')
    b.append('vcover!(v == -1, "VERIF-REACH-minus-one");')
    b.append("vend!();")
    from .engine import Harness
    return Harness(f"neg_{f.name}", "\n".join(b), "pass", "signed_negative", "C05", f.name, H.funcs_for(L, f, ["with_", ""]), reach=("VERIF-REACH-minus-one",))


def plan_c05(tier, seed):
    Ls = c05_layouts(tier, seed)
    us = units_from(Ls, lambda L: sum([[H.h_get(L, f, "C05"), H.h_set(L, f, "C05"), h_signed_extra(L, f)] for f in L.fields], []))
    add_controls(us, "C05", kinds=("get", "set", "set"))
    return Plan(us, title="signed fields", chunk=220 if tier == "quick" else 600,
                bounds={"inputs": "all raw values x all iN values (negative included) x all indices", "layouts": "N in {8,16,32,64,128} x bases >= N x {plain (several lo), array default/explicit stride, two-range lists both orders, array of lists}"},
                assumptions=COMMON_ASSUME)


PLANS.update({"C02": plan_c02, "C03": plan_c03, "C04": plan_c04, "C05": plan_c05})
