"""Per-property corpus + harness plans."""
from __future__ import annotations
import random
from .model import *
from .corpus import *
from . import harness as H
from .engine import Unit
from .run import Plan


def units_from(layouts, hfun, prefix="l", start=0, valid=True, role=""):
    us = []
    for i, L in enumerate(layouts):
        hs = hfun(L)
        us.append(Unit(f"{prefix}{start + i:05d}", L.decl(), hs, {"layout": L, "sig": L.sig(), "tag": L.tag, "valid": valid, "role": role}))
    return us


COMMON_ASSUME = [
    "Kani 0.68 MIR->GOTO translation, CBMC 6.11 and CaDiCaL are sound; rustc nightly-2026-08-21 front end",
    "arbitrary-int 1.3.0 as locked in /repo/Cargo.lock is the library the expansion links against (its real bodies are executed symbolically)",
    "reference register rt/spec.rs (bit-by-bit gather/scatter, validated natively on the repository's documented examples on every run)",
    "x86_64, 64-bit usize",
    "harness assumptions: value-range masks when building arbitrary-int values (so that every value of the type is covered), index < K (or >= K) for array harnesses",
]


# ------------------------------------------------------------------------------------------------
def c01_layouts(tier, seed):
    Ls = []
    if tier == "quick":
        for W in (8, 16):
            Ls += pack(W, contiguous_fields(W, all_ranges(W), access="r"), tag=f"all ranges on u{W}")
        for W in (32, 64, 128):
            Ls += pack(W, contiguous_fields(W, boundary_ranges(W), access="r"), tag=f"boundary ranges on u{W}")
        arb = QUICK_ARB
    else:
        for W in NATIVE_BASES:
            Ls += pack(W, contiguous_fields(W, all_ranges(W), access="r"), per=8, tag=f"all ranges on u{W}")
        arb = ALL_ARB
    for N in arb:
        Ls += pack(N, contiguous_fields(N, arb_base_ranges(N), access="r"), tag=f"boundary ranges on arbitrary base u{N}")
    if tier != "quick":
        rnd = random.Random(seed)
        for N in rnd.sample(ALL_ARB, 12):
            Ls += pack(N, contiguous_fields(N, all_ranges(N) if N <= 24 else rnd.sample(all_ranges(N), 200), access="r"), per=8, tag=f"ranges on arbitrary base u{N}")
    return Ls


def plan_c01(tier, seed):
    Ls = c01_layouts(tier, seed)
    us = units_from(Ls, lambda L: [H.h_get(L, f, "C01") for f in L.fields])
    # negative controls on three real layouts (first, middle, last)
    for k in (0, len(us) // 2, len(us) - 1):
        L = us[k].meta["layout"]
        us[k].harnesses.append(H.ctl_get(L, L.fields[0], "C01"))
    return Plan(us, title="getter == declared bits", chunk=260 if tier == "quick" else 700,
                bounds={"raw values": "all 2^N per layout (symbolic)", "layouts": "this run's corpus: " + ("all lo..=hi on u8,u16; boundary placements on u32,u64,u128; 14 arbitrary-int bases" if tier == "quick" else "all lo..=hi on u8..u128; all 122 arbitrary-int bases (boundary placements) + 12 random ones swept"),
                        "loops": "none in the code under test; reference loops have compile-time bounds <= 128 and are fully unwound (unwinding assertions on)"},
                assumptions=COMMON_ASSUME, exhaustive=False)


PLANS = {"C01": plan_c01}
