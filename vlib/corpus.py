"""Layout corpus generators (the `programs` quantifier). Structured-exhaustive on small bases,
boundary-directed on wide ones, plus seeded random shapes."""
from __future__ import annotations
import random
from .model import *

QUICK_ARB = [1, 2, 7, 9, 12, 14, 24, 31, 33, 48, 63, 65, 100, 127]
ALL_ARB = [n for n in range(1, 128) if n not in NATIVE]
NATIVE_BASES = [8, 16, 32, 64, 128]


def ty_for_width(n, one_bit="bool"):
    if n == 1:
        return T_bool() if one_bit == "bool" else T_uint(1)
    return T_uint(n)


def boundary_widths(W):
    c = {1, 2, 3, 7, 8, 9, 15, 16, 17, 31, 32, 33, 63, 64, 65, 127, 128, W - 1, W, W // 2}
    return sorted(x for x in c if 1 <= x <= W)


def boundary_los(W, n):
    c = {0, 1, W - n, W - n - 1, (W - n) // 2, 7, 8, 31, 32, 63, 64}
    return sorted(x for x in c if 0 <= x and x + n <= W)


def pack(base, fields, per=6, **kw):
    """group independent (possibly overlapping) fields into layouts of at most `per` fields"""
    out = []
    for i in range(0, len(fields), per):
        fs = fields[i:i + per]
        for j, f in enumerate(fs):
            f.name = f"f{j}"
        out.append(Layout(base, fs, **kw))
    return out


def all_ranges(W):
    return [(lo, n) for lo in range(W) for n in range(1, W - lo + 1)]


def contiguous_fields(W, ranges, access="rw", alt_one_bit=True):
    fs = []
    for k, (lo, n) in enumerate(ranges):
        ob = "bool" if (not alt_one_bit or (lo + k) % 2 == 0) else "u1"
        form = "auto"
        if n == 1 and (lo % 5 == 3):
            form = "bits1"
        fs.append(Field("f", ty_for_width(n, ob), [(lo, n)], None, access, form))
    return fs


def boundary_ranges(W):
    out = []
    for n in boundary_widths(W):
        for lo in boundary_los(W, n):
            if (lo, n) not in out:
                out.append((lo, n))
    return out


def arb_base_ranges(N):
    """ranges for an arbitrary-int base of N bits: full width, top bit, low, top-ending, native-typed"""
    c = [(0, N), (N - 1, 1), (0, 1)]
    if N >= 3:
        c += [(0, N - 1), (1, N - 1), (N - 2, 2), (0, 2)]
    for w in NATIVE:
        if w < N:
            c += [(N - w, w), (0, w)]
            if N - w > 1:
                c.append((1, w))
    if N > 8:
        c += [(N // 2, N - N // 2), (3, 5)]
    out = []
    for r in c:
        if r not in out and r[1] >= 1 and r[0] + r[1] <= N:
            out.append(r)
    return out


# ---- helpers for enums / custom types ---------------------------------------------------------
def full_enum(name, bits, exhaustive="true"):
    return EnumDef(name, bits, [(f"V{i}", i, None) for i in range(1 << bits)], exhaustive)


def sparse_enum(name, bits, discrs, exhaustive=None):
    return EnumDef(name, bits, [(f"V{i}", d, None) for i, d in enumerate(discrs)], exhaustive)


def custom_decl(name, w):
    return (f"#[derive(Copy, Clone)]\npub struct {name}(pub u{w});\n"
            f"impl {name} {{\n    pub const fn new_with_raw_value(v: u{w}) -> Self {{ Self(v) }}\n"
            f"    pub const fn raw_value(self) -> u{w} {{ self.0 }}\n}}")


def nested_decl(name, w):
    # two halves when possible so that the inner type is a real multi-field bitfield
    if w >= 2:
        a = w // 2
        ta = T_uint(a).decl_ty() if a > 1 else "bool"
        tb = T_uint(w - a).decl_ty() if (w - a) > 1 else "bool"
        la = f"#[bits(0..={a - 1}, rw)]" if a > 1 else "#[bit(0, rw)]"
        lb = f"#[bits({a}..={w - 1}, rw)]" if (w - a) > 1 else f"#[bit({a}, rw)]"
        return f"#[bitfield(u{w})]\npub struct {name} {{\n    {la}\n    lo: {ta},\n    {lb}\n    hi: {tb},\n}}"
    return f"#[bitfield(u{w})]\npub struct {name} {{\n    #[bit(0, rw)]\n    lo: bool,\n}}"


# ---- arrays -----------------------------------------------------------------------------------
def array_shapes(W, max_w=None, max_K=16):
    """all (lo, w, s, K) with K>=2, s>=w, (K-1)*s+lo+w <= W"""
    out = []
    for w in range(1, (max_w or W // 2) + 1):
        for s in range(w, W):
            for lo in range(0, W):
                for K in range(2, max_K + 1):
                    if (K - 1) * s + lo + w <= W:
                        out.append((lo, w, s, K))
    return out


def elem_type_variants(w, idx=0):
    """element presentations possible for a width"""
    v = []
    if w == 1:
        v = [T_bool(), T_uint(1)]
    elif is_native(w):
        v = [T_uint(w), T_int(w)]
    else:
        v = [T_uint(w)]
    return v


def array_field(lo, w, s, K, ty=None, access="rw", explicit=None, name="a"):
    if explicit is None:
        explicit = (s != w)
    return Field(name, ty or ty_for_width(w), [(lo, w)], (K, s, explicit), access)


def fill_shapes(W):
    """arrays that end exactly on the top bit, K = 2 cases, and the widest element that fits twice"""
    out = []
    for w in [1, 2, 3, 4, 5, 7, 8, 9, 16, 32, 64]:
        if 2 * w > W:
            continue
        K = W // w
        out.append((0, w, w, K))  # fill from 0
        out.append((W - 2 * w, w, w, 2))  # K=2 ending at top
        if w + 1 <= W // 2:
            s = w + 1
            K2 = (W - w) // s + 1
            out.append((W - ((K2 - 1) * s + w), w, s, K2))  # gaps, ends at top
        if W - 2 * w - 3 >= 0:
            out.append((3, w, W - w - 3, 2))  # two elements far apart, second ends at top
    res = []
    for x in out:
        lo, w, s, K = x
        if K >= 2 and lo >= 0 and s >= w and (K - 1) * s + lo + w <= W and x not in res:
            res.append(x)
    return res


# ---- non-contiguous lists ---------------------------------------------------------------------
def random_list(rnd, W, w, parts=None):
    """w bits as 2..8 pairwise-disjoint ranges placed in W bits, list order shuffled"""
    k = parts or rnd.randint(2, min(8, w))
    k = min(k, w)
    # split w into k positive parts
    cuts = sorted(rnd.sample(range(1, w), k - 1)) if k > 1 else []
    sizes = [b - a for a, b in zip([0] + cuts, cuts + [w])]
    free = W - w
    # distribute free bits as gaps (k+1 gaps)
    gaps = [0] * (k + 1)
    for _ in range(free):
        gaps[rnd.randrange(k + 1)] += 1
    pos, rs = 0, []
    order = list(range(k))
    rnd.shuffle(order)
    sizes_placed = [sizes[i] for i in order]
    for i, n in enumerate(sizes_placed):
        pos += gaps[i]
        rs.append((pos, n))
        pos += n
    # rs is ascending by position; choose the declaration order
    mode = rnd.choice(["asc", "desc", "shuffle", "shuffle"])
    if mode == "desc":
        rs.reverse()
    elif mode == "shuffle":
        rnd.shuffle(rs)
    return rs


def list_type_for(rnd, w):
    if is_native(w):
        return rnd.choice([T_uint(w), T_uint(w), T_int(w)])
    return T_uint(w)


def documented_lists(W):
    """shapes taken from README / bitbybit-tests, re-instantiated where they fit"""
    out = []
    if W >= 32:
        out.append(("riscv S imm", T_uint(12), [(7, 5), (25, 7)]))
        out.append(("riscv B imm", T_uint(12), [(8, 4), (25, 6), (7, 1), (31, 1)]))
        out.append(("byteswap32", T_uint(32), [(24, 8), (16, 8), (8, 8), (0, 8)]))
        out.append(("byteswap32 signed", T_int(32), [(24, 8), (16, 8), (8, 8), (0, 8)]))
    if W >= 24:
        out.append(("byteswap24", T_uint(24), [(16, 8), (8, 8), (0, 8)]))
    if W >= 64:
        out.append(("byteswap64", T_uint(64), [(56, 8), (48, 8), (40, 8), (32, 8), (24, 8), (16, 8), (8, 8), (0, 8)]))
        out.append(("halfswap64", T_uint(64), [(32, 32), (0, 32)]))
    if W >= 128:
        out.append(("halfswap128", T_uint(128), [(64, 64), (0, 64)]))
        out.append(("wide list with 64-bit member", T_uint(100), [(64, 36), (0, 64)]))
        out.append(("i128 swapped halves", T_int(128), [(64, 64), (0, 64)]))
    if W >= 8:
        out.append(("bitswap8", T_uint(8), [(7 - i, 1) for i in range(8)]))
        out.append(("bitswap7", T_uint(7), [(6 - i, 1) for i in range(7)]))
        out.append(("top+bottom", T_uint(2), [(W - 1, 1), (0, 1)]))
        out.append(("bottom+top", T_uint(2), [(0, 1), (W - 1, 1)]))
        out.append(("signed across", T_int(8), [(W - 4, 4), (0, 4)]))
    if W >= 8:
        out.append(("range then single bits counting down", T_uint(8), [(4, 4), (3, 1), (2, 1), (1, 1), (0, 1)]))
        out.append(("descending single bits with gaps", T_uint(4), [(6, 1), (4, 1), (2, 1), (0, 1)]))
        out.append(("single bit followed by a range", T_uint(5), [(W - 1, 1), (0, 4)]))
        if W >= 16:
            out.append(("two far single bits descending", T_uint(2), [(W - 1, 1), (7, 1)]))
    if W >= 32:
        out.append(("riscv J imm", T_uint(20), [(21, 10), (20, 1), (12, 8), (31, 1)]))
    if W >= 3:
        out.append(("ends", T_uint(2), [(0, 1), (W - 1, 1)]))
        out.append(("mid single in list", T_uint(1), [(W // 2, 1)]))
    return out


# ---- register-like multi-field layouts ----------------------------------------------------------
def _mk_field_type(rnd, w, aux, allow_custom=True):
    """pick a presentation for a w-bit field; may append an aux declaration"""
    opts = []
    if w == 1:
        opts = ["bool", "bool", "u1"]
        if allow_custom:
            opts.append("enum1")
    elif is_native(w):
        opts = ["uint", "uint", "int"]
        if allow_custom and w <= 64:
            opts.append("optenum")
    else:
        opts = ["uint", "uint", "uint"]
        if allow_custom and w <= 4:
            opts.append("enum")
        if allow_custom and w <= 64:
            opts.append("optenum")
    if allow_custom:
        opts.append("custom")
    k = rnd.choice(opts)
    n = len(aux)
    if k == "bool":
        return T_bool()
    if k == "u1":
        return T_uint(1)
    if k == "uint":
        return T_uint(w)
    if k == "int":
        return T_int(w)
    if k in ("enum", "enum1"):
        e = full_enum(f"E{n}", w)
        aux.append(e)
        return FType("enum", w, e)
    if k == "optenum":
        top = (1 << w) - 1
        ds = sorted(set([0, top] + [rnd.getrandbits(w) for _ in range(3)]))
        if len(ds) == (1 << w):
            ds = ds[:-1]
        e = sparse_enum(f"E{n}", w, ds, None)
        aux.append(e)
        return FType("optenum", w, e)
    aux.append(custom_decl(f"Cust{n}", w))
    return FType("custom", w, None, f"Cust{n}")


def tiled_layout(rnd, W, complete=True, default=None, max_fields=8, access_mix=True, allow_custom=True, tag=""):
    """fields tile [0, W) without overlap (complete) or leave gaps (not complete); mixes scalar,
    array and list fields"""
    aux, fields = [], []
    pos = 0
    idx = 0
    remaining_fields = rnd.randint(2, max_fields)
    while pos < W:
        left = W - pos
        if not complete and rnd.random() < 0.25 and left > 1:
            pos += rnd.randint(1, max(1, left // 4))  # gap
            continue
        last = (remaining_fields <= 1)
        kind = rnd.choice(["scalar", "scalar", "scalar", "array", "list"]) if left >= 4 else "scalar"
        if last and complete:
            kind = "scalar" if left <= 128 else "scalar"
        name = f"f{idx}"
        if kind == "scalar":
            w = left if (last and complete) else rnd.randint(1, min(left, rnd.choice([1, 3, 8, 16, 32, 64, left])))
            w = max(1, min(w, left))
            ty = _mk_field_type(rnd, w, aux, allow_custom)
            fields.append(Field(name, ty, [(pos, w)], None, "rw"))
            pos += w
        elif kind == "array":
            K = rnd.randint(2, min(8, left // 1))
            w = max(1, min(rnd.choice([1, 2, 3, 4, 8, 16]), left // K))
            K = min(K, left // w)
            if K < 2:
                continue
            gap = 0 if complete else rnd.choice([0, 0, 1, 2])
            s = w + gap
            while (K - 1) * s + w > left:
                K -= 1
            if K < 2:
                continue
            ty = _mk_field_type(rnd, w, aux, allow_custom)
            fields.append(Field(name, ty, [(pos, w)], (K, s, s != w or rnd.random() < 0.3), "rw"))
            pos += (K - 1) * s + w
        else:  # list of two or three adjacent chunks in shuffled order (still tiles)
            w = rnd.randint(2, min(left, 16))
            parts = rnd.randint(2, min(3, w))
            cuts = sorted(rnd.sample(range(1, w), parts - 1))
            sizes = [b - a for a, b in zip([0] + cuts, cuts + [w])]
            rs, p = [], pos
            for n in sizes:
                rs.append((p, n))
                p += n
            rnd.shuffle(rs)
            ty = list_type_for(rnd, w)
            fields.append(Field(name, ty, rs, None, "rw"))
            pos += w
        idx += 1
        remaining_fields -= 1
        if remaining_fields <= 0 and not complete:
            break
    if access_mix:
        for f in fields:
            f.access = rnd.choice(["rw", "rw", "rw", "w"] + ([] if complete else ["r"]))
    L = Layout(W, fields, default=default, aux=aux, tag=tag)
    return L


def overlapping_layout(rnd, W, nfields=5, tag=""):
    """fields placed independently: they may overlap each other (aliasing must be coherent)"""
    aux, fields = [], []
    for idx in range(nfields):
        kind = rnd.choice(["scalar", "scalar", "array", "list"]) if W >= 8 else "scalar"
        name = f"f{idx}"
        if kind == "scalar":
            w = rnd.choice([1, 2, 3, 8, 16, 32, rnd.randint(1, W)])
            w = min(w, W)
            lo = rnd.randint(0, W - w)
            fields.append(Field(name, _mk_field_type(rnd, w, aux), [(lo, w)], None, "rw"))
        elif kind == "array":
            w = rnd.choice([1, 2, 4, 8])
            K = rnd.randint(2, 4)
            s = w + rnd.choice([0, 0, 1, 3])
            span = (K - 1) * s + w
            if span > W:
                continue
            lo = rnd.randint(0, W - span)
            fields.append(Field(name, _mk_field_type(rnd, w, aux), [(lo, w)], (K, s, s != w), "rw"))
        else:
            w = rnd.randint(2, min(12, W))
            rs = random_list(rnd, W, w, parts=rnd.randint(2, min(3, w)))
            fields.append(Field(name, list_type_for(rnd, w), rs, None, "rw"))
    if not fields:
        fields.append(Field("f0", T_bool(), [(0, 1)], None, "rw"))
    return Layout(W, fields, aux=aux, tag=tag)


# ---- universal random structs: every declaration dimension at once ------------------------------
CONST_NAMES = ["DEF_CONST", "MAX", "MASK", "RESET", "ZERO", "BITS", "DEFAULT", "MIN", "VALUE"]
W_CHOICES = [1, 1, 2, 3, 4, 5, 7, 8, 8, 9, 12, 15, 16, 16, 17, 24, 31, 32, 32, 33, 48, 63, 64, 64, 65, 100, 127, 128]


def _u_type(rnd, w, aux, allow_custom=True):
    ty = _mk_field_type(rnd, w, aux, allow_custom)
    if rnd.random() < 0.15 and ty.kind in ("uint", "optenum"):
        ty.path = rnd.choice(["qualified", "abs"] + (["std"] if ty.kind == "optenum" else []))
    return ty


def _u_list(rnd, lo_space, hi_space, w):
    """a range list of total width w inside [lo_space, hi_space): several flavours"""
    span = hi_space - lo_space
    mode = rnd.choice(["chunks", "random", "adjacent_far", "desc_adjacent", "bits", "random"])
    if mode == "chunks" and w % 4 == 0 and w >= 8 and span >= w:
        c = w // 4
        off = lo_space + rnd.randint(0, span - w)
        order = list(range(4))
        rnd.shuffle(order)
        return [(off + k * c, c) for k in order]
    if mode == "bits" and w <= 6 and span >= 2 * w:
        pos = sorted(rnd.sample(range(lo_space, hi_space), w))
        rs = [(p, 1) for p in pos]
        rnd.shuffle(rs)
        return rs
    if mode == "adjacent_far" and w >= 3 and span >= w + 2:
        a = rnd.randint(1, w - 2)
        b = rnd.randint(1, w - a - 1)
        c = w - a - b
        base = lo_space + rnd.randint(0, max(0, span - w - 2) // 2)
        far = hi_space - c
        if base + a + b <= far:
            rs = [(base, a), (base + a, b), (far, c)]
            return rs if rnd.random() < 0.6 else [rs[2], rs[0], rs[1]]
    if mode == "desc_adjacent" and w >= 2 and span >= w:
        k = rnd.randint(2, min(4, w))
        cuts = sorted(rnd.sample(range(1, w), k - 1))
        sizes = [b - a for a, b in zip([0] + cuts, cuts + [w])]
        off = lo_space + rnd.randint(0, span - w)
        rs, p = [], off
        for n in sizes:
            rs.append((p, n))
            p += n
        rs.reverse()
        return rs
    rs = random_list(rnd, span, w, parts=rnd.randint(2, min(5, w)))
    return [(lo + lo_space, n) for (lo, n) in rs]


def universal_layout(rnd, W=None, tag="universal random struct"):
    W = W or rnd.choice([8, 16, 32, 64, 128, 128, 64, 32] + [rnd.choice(ALL_ARB)] * 4)
    if W < 2:
        W = 8
    aux, fields = [], []
    disjoint = rnd.random() < 0.5
    nf = rnd.randint(1, 6)
    used = set()
    for idx in range(nf):
        for attempt in range(12):
            w = min(rnd.choice(W_CHOICES), W)
            shape = rnd.choice(["scalar", "scalar", "scalar", "list", "list", "array", "array", "array_list"])
            if w < 2 and shape in ("list", "array_list"):
                shape = "scalar"
            ty = _u_type(rnd, w, [], True)  # probe kind only
            K = None
            if shape in ("array", "array_list"):
                K = rnd.randint(2, 8)
                if shape == "array":
                    gap = rnd.choice([0, 0, 0, 1, 2, w])
                    s = w + gap
                    span = (K - 1) * s + w
                    if span > W:
                        continue
                    lo = rnd.choice([0, W - span, rnd.randint(0, W - span)])
                    ranges, arr = [(lo, w)], (K, s, (s != w) or rnd.random() < 0.3)
                else:
                    espan = rnd.randint(w, max(w, min(W // K, 2 * w + 3)))
                    if espan * K > W or espan < w:
                        continue
                    off = rnd.choice([0, W - espan * K, rnd.randint(0, W - espan * K)])
                    rs = _u_list(rnd, 0, espan, w) if espan > w else None
                    if not rs:
                        continue
                    ranges, arr = [(lo + off, n) for (lo, n) in rs], (K, espan, True)
            elif shape == "list":
                if W - w < 1 and rnd.random() < 0.7:
                    continue
                rs = _u_list(rnd, 0, W, w)
                ranges, arr = rs, None
            else:
                lo = rnd.choice([0, W - w, rnd.randint(0, W - w), max(0, min(W - w, rnd.choice([8, 16, 32, 64]) - w // 2))])
                ranges, arr = [(lo, w)], None
            f = Field(f"f{idx}", T_bool(), ranges, arr, "rw")
            pos = f.all_positions()
            if len(set(pos)) != len(pos) or max(pos) >= W or min(pos) < 0:
                continue
            if disjoint and (set(pos) & used):
                continue
            local_aux = []
            f.ty = _u_type(rnd, w, local_aux, True)
            if f.ty.kind == "custom" and rnd.random() < 0.6:
                local_aux = []
                f.ty = T_int(w) if (is_native(w) and rnd.random() < 0.6) else (T_uint(w) if w > 1 else T_bool())
            # aux names must be unique within the struct
            for a in local_aux:
                if isinstance(a, EnumDef):
                    newn = f"E{idx}x{len(aux)}"
                    f.ty.enum.name = newn
                    a.name = newn
                else:
                    old = f.ty.inner_name
                    newn = f"Cust{idx}x{len(aux)}"
                    a = a.replace(old, newn)
                    f.ty.inner_name = newn
                aux.append(a)
            if f.ty.kind == "bool" and (len(ranges) != 1 or w != 1):
                f.ty = T_uint(1) if w == 1 else T_uint(w)
            if f.ty.kind == "bool" and rnd.random() < 0.2:
                f.form = "bits1"
            f.access = rnd.choice(["rw", "rw", "rw", "rw", "r", "w", "w"])
            if arr and rnd.random() < 0.3:
                f.arg_order = rnd.choice(["sra", "asr", "rsa", "ars", "sar"])
            elif rnd.random() < 0.1:
                f.arg_order = "ars"
            if rnd.random() < 0.2:
                f.doc = f"field number {idx}: documentation is forwarded to the accessors"
            if rnd.random() < 0.08 and f.access:
                f.attr_split = rnd.choice(["access_last", "access_first"])
            if rnd.random() < 0.05:
                f.doc_hidden = True
            if rnd.random() < 0.08:
                f.zero_pad = True
            if len(ranges) > 1 and rnd.random() < 0.12:
                f.list_trailing_comma = True
            if rnd.random() < 0.1 and not f.attr_split:
                f.args_trailing_comma = True
            if len(ranges) > 1 and rnd.random() < 0.1 and not f.attr_split:
                f.list_split = rnd.randint(1, len(ranges) - 1)
            if rnd.random() < 0.06:
                kw = rnd.choice(["type", "match", "loop", "struct", "fn"])
                if kw not in [x.name for x in fields]:
                    f.name, f.raw_ident = kw, True
            used |= set(pos)
            fields.append(f)
            break
    if not fields:
        fields.append(Field("f0", T_bool(), [(0, 1)], None, "rw"))
    dflt = None
    r = rnd.random()
    if r < 0.35:
        dflt = ("lit", rnd.getrandbits(W) | 1, rnd.choice(["hex", "hex", "dec", "bin", "hex_", "oct"]))
    elif r < 0.5:
        dflt = ("const", rnd.getrandbits(W) | (1 << (W - 1)))
    L = Layout(W, fields, default=dflt, aux=aux, tag=tag + f" on u{W}", legacy=(rnd.random() < 0.12))
    if dflt and dflt[0] == "const":
        L.const_name = rnd.choice(CONST_NAMES)
    L.vis = rnd.choice(["pub", "pub", "pub(crate)", ""])
    if rnd.random() < 0.2:
        L.derives = rnd.choice(["PartialEq, Eq", "Debug, PartialEq", "Debug"])
    if dflt and rnd.random() < 0.15:
        L.trailing_comma = True
    if dflt and rnd.random() < 0.1:
        L.via_macro = True
    if not L.rule_valid():
        return universal_layout(rnd, W, tag)
    # token-surface forms, drawn from a generator of their own (keyed by the layout) so that the main stream,
    # and with it every layout produced before these forms existed, stays what it was
    import zlib
    r2 = random.Random(zlib.crc32(repr(L.sig()).encode()))
    if r2.random() < 0.2:
        L.struct_doc = r2.choice(["Debug view of the Copy (Clone) register", "Default configuration; PartialEq with the reset value", "status register"])
    if not L.via_macro and r2.random() < 0.2:
        L.macro_idents = True
    for f in L.fields:
        if f.access == "rw" and r2.random() < 0.15:
            f.access_form = r2.choice(["r,w", "w,r"])
    return L


def universal_layouts(seed, n, salt=0):
    rnd = random.Random(seed * 1000003 + salt * 7919 + 17)
    out = []
    for k in range(n):
        L = universal_layout(rnd)
        L.origin = "universal"
        out.append(L)
    return out
