"""Layout corpus generators (the `programs` quantifier). Structured-exhaustive on small bases,
boundary-directed on wide ones, plus seeded random shapes."""
from __future__ import annotations
import random
from .model import *

QUICK_ARB = [1, 2, 7, 9, 12, 14, 24, 31, 33, 48, 63, 65, 100, 127]
ALL_ARB = [n for n in range(1, 128) if n not in NATIVE]
NATIVE_BASES = [8, 16, 32, 64, 128]


def ty_for_width(n, one_bit="bool"):
    if n == 1:
        return T_bool() if one_bit == "bool" else T_uint(1)
    return T_uint(n)


def boundary_widths(W):
    c = {1, 2, 3, 7, 8, 9, 15, 16, 17, 31, 32, 33, 63, 64, 65, 127, 128, W - 1, W, W // 2}
    return sorted(x for x in c if 1 <= x <= W)


def boundary_los(W, n):
    c = {0, 1, W - n, W - n - 1, (W - n) // 2, 7, 8, 31, 32, 63, 64}
    return sorted(x for x in c if 0 <= x and x + n <= W)


def pack(base, fields, per=6, **kw):
    """group independent (possibly overlapping) fields into layouts of at most `per` fields"""
    out = []
    for i in range(0, len(fields), per):
        fs = fields[i:i + per]
        for j, f in enumerate(fs):
            f.name = f"f{j}"
        out.append(Layout(base, fs, **kw))
    return out


def all_ranges(W):
    return [(lo, n) for lo in range(W) for n in range(1, W - lo + 1)]


def contiguous_fields(W, ranges, access="rw", alt_one_bit=True):
    fs = []
    for k, (lo, n) in enumerate(ranges):
        ob = "bool" if (not alt_one_bit or (lo + k) % 2 == 0) else "u1"
        form = "auto"
        if n == 1 and (lo % 5 == 3):
            form = "bits1"
        fs.append(Field("f", ty_for_width(n, ob), [(lo, n)], None, access, form))
    return fs


def boundary_ranges(W):
    out = []
    for n in boundary_widths(W):
        for lo in boundary_los(W, n):
            if (lo, n) not in out:
                out.append((lo, n))
    return out


def arb_base_ranges(N):
    """ranges for an arbitrary-int base of N bits: full width, top bit, low, top-ending, native-typed"""
    c = [(0, N), (N - 1, 1), (0, 1)]
    if N >= 3:
        c += [(0, N - 1), (1, N - 1), (N - 2, 2), (0, 2)]
    for w in NATIVE:
        if w < N:
            c += [(N - w, w), (0, w)]
            if N - w > 1:
                c.append((1, w))
    if N > 8:
        c += [(N // 2, N - N // 2), (3, 5)]
    out = []
    for r in c:
        if r not in out and r[1] >= 1 and r[0] + r[1] <= N:
            out.append(r)
    return out


# ---- helpers for enums / custom types ---------------------------------------------------------
def full_enum(name, bits, exhaustive="true"):
    return EnumDef(name, bits, [(f"V{i}", i, None) for i in range(1 << bits)], exhaustive)


def sparse_enum(name, bits, discrs, exhaustive=None):
    return EnumDef(name, bits, [(f"V{i}", d, None) for i, d in enumerate(discrs)], exhaustive)


def custom_decl(name, w):
    return (f"#[derive(Copy, Clone)]\npub struct {name}(pub u{w});\n"
            f"impl {name} {{\n    pub const fn new_with_raw_value(v: u{w}) -> Self {{ Self(v) }}\n"
            f"    pub const fn raw_value(self) -> u{w} {{ self.0 }}\n}}")


def nested_decl(name, w):
    # two halves when possible so that the inner type is a real multi-field bitfield
    if w >= 2:
        a = w // 2
        ta = T_uint(a).decl_ty() if a > 1 else "bool"
        tb = T_uint(w - a).decl_ty() if (w - a) > 1 else "bool"
        la = f"#[bits(0..={a - 1}, rw)]" if a > 1 else "#[bit(0, rw)]"
        lb = f"#[bits({a}..={w - 1}, rw)]" if (w - a) > 1 else f"#[bit({a}, rw)]"
        return f"#[bitfield(u{w})]\npub struct {name} {{\n    {la}\n    lo: {ta},\n    {lb}\n    hi: {tb},\n}}"
    return f"#[bitfield(u{w})]\npub struct {name} {{\n    #[bit(0, rw)]\n    lo: bool,\n}}"
