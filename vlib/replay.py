"""./check replay <path>: re-execute a recorded violation against the CURRENT tree of the repo.
exit 1 = reproduces, 0 = does not reproduce, 2 = could not be executed."""
from __future__ import annotations
import json, os, re, sys
from . import engine as E
from .engine import Harness, Unit, Crate, VERIF


def main(path, repo):
    rec = json.load(open(path))
    work = os.path.join(E.WORK, "replay_cmd")
    src = os.path.join(work, "src")
    E.snapshot_repo(repo, src)
    dep, lock = os.path.join(src, "bitbybit"), os.path.join(src, "Cargo.lock")
    relmacro = rec.get("macro_profile") == "release"
    kind = rec["kind"]
    hname = rec.get("harness") or "decl"
    body = rec.get("harness_source") or "vend!();"
    h = Harness(hname, body, rec.get("expect", "pass"), stubs=tuple(tuple(x) for x in rec.get("stubs", [])))
    u = Unit(rec["unit"], rec["declaration"], [h] if rec.get("harness") else [], {}, rec.get("pre", ""))
    extra_rt = tuple(rec.get("extra_rt", ()))
    if kind in ("rejected-valid-declaration", "api-shape"):
        if rec.get("no_std"):
            u.harnesses = []
        cr = Crate(os.path.join(work, "chk_nostd" if rec.get("no_std") else "chk"), "vchk", [u], dep, lock, release_macro=relmacro, extra_rt=extra_rt, nostd=bool(rec.get("no_std")))
        cr.write(only_if_changed=False)
        ok, diags, err, wall = E.cargo_check(cr, os.path.join(work, "target_chk"))
        for d in diags:
            print(d["rendered"])
        print("REPLAY-RESULT:", "compiles (does not reproduce)" if ok else "does not compile (reproduces)")
        return 0 if ok else 1
    if kind == "accepted-invalid-declaration":
        u.harnesses = []
        cr = Crate(os.path.join(work, "chk"), "vchk", [u], dep, lock, release_macro=relmacro, extra_rt=extra_rt)
        cr.write(only_if_changed=False)
        ok, diags, err, wall = E.cargo_check(cr, os.path.join(work, "target_chk"))
        print("REPLAY-RESULT:", "compiles (reproduces: the rules call this declaration invalid)" if ok else "rejected (does not reproduce)")
        return 1 if ok else 0
    vals = rec.get("input_bytes")
    if vals is None:
        print("no input recorded")
        return 2
    rr = E.native_replay(os.path.join(work, "replay_relmacro" if relmacro else "replay"), [u], [(u.uid, hname, vals)], dep, lock,
                         release_macro=relmacro, extra_rt=extra_rt)
    print(json.dumps(rr[0], indent=1))
    outs = [rr[0].get("dev", ""), rr[0].get("release", "")]
    if isinstance(vals, dict):
        # unsatisfiable-cover finding: re-decide with Kani on this single harness
        cr = Crate(os.path.join(work, "kani1"), "vk1", [u], dep, lock, release_macro=relmacro, extra_rt=extra_rt)
        cr.write(only_if_changed=False)
        res = E.run_kani(cr, os.path.join(work, "target_k1"), jobs=2, stubbing=bool(h.stubs))
        r = res["results"].get(f"{u.uid}::{hname}", {})
        sat = [c for c in r.get("checks", []) if vals["search"] in c.get("description", "")]
        st = sat[0]["status"] if sat else "?"
        print(f"REPLAY-RESULT: cover {vals['search']} is {st} according to Kani; native random search: {outs}")
        return 1 if st == "Unsatisfiable" else 0
    if rec.get("expect") == "oob":
        rep = any("REPLAY panicked" in x and "VERIF-MARKER" in x for x in outs)
    else:
        rep = any("REPLAY panicked" in x and "VERIF-ASSUME-VIOLATED" not in x for x in outs)
    print("REPLAY-RESULT:", "reproduces" if rep else "does not reproduce")
    return 1 if rep else 0
