"""Generic check driver: corpus -> crates -> (rustc acceptance) -> Kani -> classify -> concrete
playback -> native replay -> known findings -> evidence -> exit code."""
from __future__ import annotations
import json, os, re, shutil, sys, time, threading, hashlib
from concurrent.futures import ThreadPoolExecutor
from dataclasses import dataclass, field as dfield
from typing import Optional
from . import engine as E
from .engine import Harness, Unit, Crate, log, VERIF


@dataclass
class Plan:
    units: list  # Units expected to be accepted (rule-valid) unless meta['valid'] is False
    title: str = ""
    stubbing: bool = False
    extra_rt: tuple = ()
    macro_profiles: tuple = ("dev",)  # which host profiles of the proc-macro to run G under
    accept_is_obligation: bool = True  # a rule-valid declaration of the structured corpus that does not compile => violation
    reject_is_obligation: bool = False  # rule-invalid but accepted => violation even if the expansion happens to be sound
    reject_expected_note: str = ""
    bounds: dict = dfield(default_factory=dict)
    assumptions: list = dfield(default_factory=list)
    rule: str = ""
    chunk: int = 220  # harnesses per crate
    harness_timeout: int = 300
    notes: list = dfield(default_factory=list)
    extra_accept_units: list = dfield(default_factory=list)  # declaration-only units (acceptance obligations)
    nostd_units: list = dfield(default_factory=list)  # declaration-only units that must also compile inside a #![no_std] crate
    exhaustive: bool = False
    native_cases: list = dfield(default_factory=list)  # (uid, hname, vals): always executed natively (dev+release); a panic is a violation
    kissat_slice: int = 0  # re-run this many harnesses with kissat (solver diversity)
    features_nightly: tuple = ()


@dataclass
class Outcome:
    uid: str
    hname: str
    h: Harness
    unit: Unit
    profile: str
    verdict: str  # ok | fail | vacuous | error | missing
    failed: list
    covers: dict
    nchecks: int
    solver_s: float
    wall_ms: int
    funcs: set
    detail: str = ""


def load_known():
    known, fixed = [], []
    p = os.path.join(VERIF, "known_findings.txt")
    if os.path.exists(p):
        for line in open(p):
            line = line.strip()
            if not line or line.startswith("#"):
                continue
            m = re.match(r"known:\s+property=(\S+)\s+role=(\S+)\s*(.*)$", line)
            if m:
                known.append({"property": m.group(1), "role": m.group(2), "text": m.group(3)})
                continue
            m = re.match(r"fixed:\s+property=(\S+)\s+(\S+)\s*(.*)$", line)
            if m:
                fixed.append({"property": m.group(1), "commit": m.group(2), "text": m.group(3)})
    return known, fixed


def is_overflow(desc):
    return desc.startswith("attempt to ") and "overflow" in desc


def classify(h: Harness, unit: Unit, res, profile) -> Outcome:
    checks = res.get("checks", [])
    status = res.get("status")
    failed = [c for c in checks if c.get("status") == "Failure"]
    undet = [c for c in checks if c.get("status") not in ("Success", "Failure", "Unreachable", "Satisfied", "Unsatisfiable")]
    covers = {}
    for c in checks:
        if c.get("status") in ("Satisfied", "Unsatisfiable") or c.get("category") == "cover":
            d = c.get("description", "")
            m = re.search(r"(VERIF-[A-Za-z0-9_:.\-]+)", d)
            if m:
                covers[m.group(1)] = c.get("status")
    funcs = set(c.get("function", "") for c in checks)
    solver_s = float(res.get("stats", {}).get("runtime_decision_procedure_s", 0.0) or 0.0) + float(res.get("stats", {}).get("runtime_symex_s", 0.0) or 0.0)
    o = Outcome(unit.uid, h.name, h, unit, profile, "ok", failed, covers, len(checks), solver_s, res.get("duration_ms", 0), funcs)
    if status not in ("Success", "Failure") or undet or (not checks):
        o.verdict = "error"
        o.detail = f"status={status} undetermined={len(undet)} error={res.get('error')}"
        return o
    unwind = [c for c in failed if "unwinding assertion" in c.get("description", "")]
    if unwind:
        o.verdict = "error"
        o.detail = "unwinding assertion failed (bound too small)"
        return o
    marker = [c for c in checks if "VERIF-MARKER" in c.get("description", "")]
    if h.expect == "oob":
        mfail = [c for c in marker if c["status"] == "Failure"]
        others = [c for c in failed if "VERIF-MARKER" not in c.get("description", "")]
        ovf = [c for c in others if is_overflow(c.get("description", ""))]
        if mfail:
            o.verdict = "fail"
            o.detail = "marker reachable: operation returned for an out-of-range index"
            o.failed = mfail
        elif ovf:
            o.verdict = "fail"
            o.detail = "out-of-range index is stopped only by an arithmetic-overflow check (profile dependent)"
            o.failed = ovf
        elif not others:
            o.verdict = "vacuous"
            o.detail = "no panic and marker not failing"
        return o
    need = list(h.reach) + (["VERIF-END"] if h.expect in ("pass", "reach") else [])
    if h.expect == "control":
        if h.note == "marker":
            failed = [c for c in marker if c["status"] == "Failure"]
            o.failed = failed
        else:
            failed = [c for c in failed if c.get("description", "").startswith("VERIF") or "VERIF" in c.get("description", "")]
            o.failed = failed
        if failed:
            o.verdict = "ok"
        else:
            o.verdict = "vacuous"
            o.detail = "negative control was NOT refuted by the solver"
        return o
    if failed:
        o.verdict = "fail"
        o.detail = "; ".join(sorted(set(c.get("description", "") for c in failed)))[:600]
        return o
    missing = [l for l in need if covers.get(l) != "Satisfied"]
    if missing:
        if "VERIF-END" in missing:
            o.verdict = "vacuous"
            o.detail = "end of harness unreachable"
        else:
            o.verdict = "fail"
            o.detail = "cover unsatisfiable: " + ",".join(missing)
            o.failed = [{"description": "cover unsatisfiable: " + l, "status": "Unsatisfiable", "function": h.name} for l in missing]
    return o


class Runner:
    def __init__(self, pid, tier, seed, repo):
        self.pid, self.tier, self.seed, self.repo = pid, tier, seed, repo
        self.work = os.path.join(E.WORK, pid)
        os.makedirs(self.work, exist_ok=True)
        self.t0 = time.time()
        self.src = os.path.join(self.work, "src")
        self.tree = E.snapshot_repo(repo, self.src)
        self.dep = os.path.join(self.src, "bitbybit")
        self.lock = os.path.join(self.src, "Cargo.lock")
        self.inconclusive = []
        self.universal_notes = []
        self.stats = {"kani_wall": 0.0, "accept_wall": 0.0, "accept_rounds": 0}
        self.tools = {}

    # ------------------------------------------------------------------------------------------
    def prebuild_replay(self, plan):
        """build the replay skeleton (macro + deps, dev and release) while Kani runs"""
        root = os.path.join(self.work, "replay")

        def job():
            try:
                rr = E.native_replay(root, [], [], self.dep, self.lock, extra_rt=(), selftest=True)
                self.selftest = {k: v for k, v in rr.items() if str(k).startswith("selftest")}
            except Exception as ex:
                self.selftest = {"error": str(ex)}

        t = threading.Thread(target=job, daemon=True)
        t.start()
        return t

    def run_crate(self, slot, units, plan: Plan, profile, jobs):
        root = os.path.join(self.work, f"{self.tier}_{profile}_{slot}")
        tdir = os.path.join(self.work, f"target_{profile}_{slot}")
        # the crate name carries the tier: quick and thorough crates share a target directory (dependencies and the
        # macro are built once), and Kani was seen to pick up the stale harness metadata of a same-named crate
        cr = Crate(root, f"vc_{self.pid.lower()}_{self.tier[0]}{slot}", list(units), self.dep, self.lock, release_macro=(profile == "release"),
                   extra_rt=plan.extra_rt, features_nightly=plan.features_nightly)
        rejected, herrors, fatal = {}, {}, None
        need_accept = any(u.meta.get("valid") is False for u in units) or any(not u.harnesses for u in units)
        res = None
        if not need_accept:
            cr.write()
            res = E.run_kani(cr, tdir, jobs=jobs, stubbing=plan.stubbing, harness_timeout=plan.harness_timeout)
            self.stats["kani_wall"] += res["wall"]
        if need_accept or not res["built"]:
            rejected, herrors, fatal, rounds, wall = E.accept_pass(cr, tdir)
            self.stats["accept_wall"] += wall
            self.stats["accept_rounds"] += rounds
            if fatal:
                return cr, tdir, None, rejected, herrors, fatal
            cr.write()
            if any(u.harnesses for u in cr.units):
                res = E.run_kani(cr, tdir, jobs=jobs, stubbing=plan.stubbing, harness_timeout=plan.harness_timeout)
                self.stats["kani_wall"] += res["wall"]
                if not res["built"]:
                    return cr, tdir, None, rejected, herrors, "Kani build failed after a clean cargo check:\n" + res.get("tail", "")
            else:
                res = {"results": {}, "built": True, "tools": {}}
        if res.get("tools"):
            self.tools = res["tools"]
        return cr, tdir, res, rejected, herrors, None

    # ------------------------------------------------------------------------------------------
    def execute(self, plan: Plan):
        pid = self.pid
        known, fixed = load_known()
        pre = self.prebuild_replay(plan)
        all_units = list(plan.units) + list(plan.extra_accept_units)
        # generator self-defence: a unit presented as rule-valid must be rule-valid by the oracle; anything else
        # is a bug of the corpus generator (not of the code under test) and is dropped with a note
        from .model import Layout as _Layout, EnumDef as _EnumDef
        kept = []
        for u in all_units:
            obj = u.meta.get("layout") if isinstance(u.meta.get("layout"), _Layout) else (u.meta.get("enum") if isinstance(u.meta.get("enum"), _EnumDef) else None)
            if obj is not None and u.meta.get("valid") is not False and not obj.rule_valid():
                self.universal_notes.append(f"generator error: unit {u.uid} ({u.meta.get('tag')}) is not rule-valid; dropped")
                continue
            kept.append(u)
        all_units = kept
        # chunk units into crates
        chunks, cur, cnt = [], [], 0
        for u in all_units:
            n = max(1, len(u.harnesses))
            if cur and cnt + n > plan.chunk:
                chunks.append(cur)
                cur, cnt = [], 0
            cur.append(u)
            cnt += n
        if cur:
            chunks.append(cur)
        jobs_list = [(i, ch, prof) for prof in plan.macro_profiles for i, ch in enumerate(chunks)]
        conc = min(len(jobs_list), 6) or 1
        jobs_each = max(2, -(-E.NCPU // conc))
        log(f"[{pid}] {len(all_units)} units, {sum(len(u.harnesses) for u in all_units)} harnesses, {len(chunks)} crate(s) x {len(plan.macro_profiles)} macro profile(s), {conc} concurrent, -j {jobs_each}")
        outcomes, rejected_all, herr_all = [], {}, {}
        crates = {}
        unit_by_uid0 = {u.uid: u for u in all_units}

        def do(job):
            i, ch, prof = job
            return job, self.run_crate(i, ch, plan, prof, jobs_each)

        with ThreadPoolExecutor(max_workers=conc) as ex:
            for job, (cr, tdir, res, rejected, herrors, fatal) in ex.map(do, jobs_list):
                i, ch, prof = job
                crates[(i, prof)] = (cr, tdir)
                if fatal:
                    self.inconclusive.append(f"crate {i}/{prof}: {fatal[:1500]}")
                    continue
                for uid, msgs in rejected.items():
                    rejected_all[(uid, prof)] = msgs
                for (uid, hn), msgs in herrors.items():
                    herr_all[(uid, hn, prof)] = msgs
                byuid = {u.uid: u for u in ch}
                for u in cr.units:
                    for h in u.harnesses:
                        r = res["results"].get(f"{u.uid}::{h.name}")
                        if r is None:
                            outcomes.append(Outcome(u.uid, h.name, h, u, prof, "missing", [], {}, 0, 0.0, 0, set(), "no result from Kani"))
                        else:
                            o = classify(h, u, r, prof)
                            o.crate = (i, prof)
                            outcomes.append(o)
        # A rule-valid declaration rejected by the dev-built macro may be rejected only because the
        # macro's own arithmetic panicked; a release-built macro (what `cargo build --release` gives
        # users) wraps instead. Re-run such units with the release-style macro so that the semantics
        # of what users would get is decided too.
        if "release" not in plan.macro_profiles:
            redo = [unit_by_uid0[uid] for (uid, prof) in rejected_all if prof == "dev" and unit_by_uid0[uid].meta.get("valid") is not False and unit_by_uid0[uid].harnesses]
            if redo:
                redo = redo[:200]
                log(f"[{pid}] {len(redo)} rule-valid unit(s) rejected by the dev-built macro: re-running them with a release-built macro")
                cr, tdir, res, rejected, herrors, fatal = self.run_crate(900, [Unit(u.uid, u.decl, [h for h in u.harnesses if h.expect != "control"], u.meta, u.pre) for u in redo], plan, "release", E.NCPU)
                crates[(900, "release")] = (cr, tdir)
                if fatal:
                    self.inconclusive.append(f"release-macro re-run: {fatal[:800]}")
                else:
                    for uid, msgs in rejected.items():
                        rejected_all[(uid, "release")] = msgs
                    for (uid, hn), msgs in herrors.items():
                        herr_all[(uid, hn, "release")] = msgs
                    for u in cr.units:
                        for h in u.harnesses:
                            r = res["results"].get(f"{u.uid}::{h.name}")
                            if r is not None:
                                o = classify(h, u, r, "release")
                                o.crate = (900, "release")
                                outcomes.append(o)
        # solver diversity (thorough tier): re-decide a slice of the harnesses with kissat
        self.kissat = None
        nk = plan.kissat_slice or (24 if self.tier == "thorough" else 0)
        if nk and not plan.stubbing:
            import random as _r
            rr_ = _r.Random(self.seed + 99)
            pool = [o for o in outcomes if o.verdict in ("ok", "fail") and o.h.expect in ("pass", "reach")]
            pick = rr_.sample(pool, min(nk, len(pool)))
            bycrate = {}
            for o in pick:
                bycrate.setdefault(o.crate, []).append(o)
            agree = disagree = 0
            for key, os_ in bycrate.items():
                cr, tdir = crates[key]
                res = E.run_kani(cr, tdir, jobs=E.NCPU, only=[f"{o.uid}::{o.hname}" for o in os_], solver="kissat", harness_timeout=plan.harness_timeout)
                for o in os_:
                    r = res["results"].get(f"{o.uid}::{o.hname}")
                    if r is None:
                        continue
                    o2 = classify(o.h, o.unit, r, o.profile)
                    if o2.verdict == o.verdict:
                        agree += 1
                    else:
                        disagree += 1
                        self.inconclusive.append(f"solver disagreement on {o.uid}::{o.hname}: cadical={o.verdict} kissat={o2.verdict}")
            self.kissat = {"harnesses": len(pick), "agree": agree, "disagree": disagree}
        unit_by_uid = {u.uid: u for u in all_units}
        log(f"[{pid}] solve stage done at {time.time() - self.t0:.1f}s")
        # ---- counterexamples: playback + native replay --------------------------------------------
        bad = [o for o in outcomes if o.verdict == "fail"]
        controls = [o for o in outcomes if o.h.expect == "control"]
        for o in outcomes:
            if o.verdict in ("error", "missing"):
                self.inconclusive.append(f"{o.uid}::{o.hname} [{o.profile}]: {o.detail}")
            if o.verdict == "vacuous":
                self.inconclusive.append(f"{o.uid}::{o.hname} [{o.profile}]: vacuous/blind: {o.detail}")
        need_replay = bad + [o for o in controls if o.verdict == "ok"]
        MAXR = 40
        if len(need_replay) > MAXR:
            # keep the controls and the first failures of every distinct (family, role); the rest are listed unreplayed
            seen, keep = {}, []
            for o in need_replay:
                k = (o.h.family, o.unit.meta.get("role", ""), o.h.expect)
                seen[k] = seen.get(k, 0) + 1
                if o.h.expect == "control" or seen[k] <= 3:
                    keep.append(o)
            need_replay = keep[:MAXR + 20]
        cases = []

        def pb(o):
            cr, tdir = crates[o.crate]
            unsat = [c for c in o.failed if c.get("status") == "Unsatisfiable"]
            if unsat:
                lab = unsat[0]["description"].split(": ", 1)[1]
                return o, {"search": lab, "seed": self.seed + 1, "count": 30000}, "cover-unsat"
            pcs, tail = E.playback(cr, tdir, f"{o.uid}::{o.hname}", stubbing=plan.stubbing)
            want = [c.get("description", "") for c in o.failed]
            pick = None
            for pc in pcs:
                if pc["kind"] == "cover":
                    continue
                if any(pc["desc"] in w or w in pc["desc"] for w in want):
                    pick = pc
                    break
            if pick is None:
                for pc in pcs:
                    if pc["kind"] != "cover":
                        pick = pc
                        break
            return o, (pick["vals"] if pick else None), (pick["desc"] if pick else "no playback produced: " + tail[-400:])

        if need_replay:
            with ThreadPoolExecutor(max_workers=8) as ex:
                pbs = list(ex.map(pb, need_replay))
            pre.join()
            by_prof = {}
            for (o, vals, desc) in pbs:
                o.play_desc = desc
                o.vals = vals
                if vals is None:
                    o.native = {"dev": "NO-PLAYBACK", "release": "NO-PLAYBACK"}
                    continue
                by_prof.setdefault(o.profile, []).append(o)
            for prof, os_ in by_prof.items():
                uids = []
                for o in os_:
                    if o.uid not in uids:
                        uids.append(o.uid)
                units = []
                for uid in uids:
                    u = unit_by_uid[uid]
                    hs = [o.h for o in os_ if o.uid == uid]
                    # dedupe
                    hh = []
                    for h in hs:
                        if h.name not in [x.name for x in hh]:
                            hh.append(h)
                    units.append(Unit(u.uid, u.decl, hh, u.meta, u.pre))
                root = os.path.join(self.work, "replay" if prof == "dev" else "replay_relmacro")
                rr = E.native_replay(root, units, [(o.uid, o.hname, o.vals) for o in os_], self.dep, self.lock,
                                     release_macro=(prof == "release"), extra_rt=plan.extra_rt)
                for i, o in enumerate(os_):
                    o.native = rr[i]
        else:
            pass

        def reproduced(o):
            nat = getattr(o, "native", None)
            if not nat:
                return False
            outs = [nat.get("dev", ""), nat.get("release", "")]
            if isinstance(getattr(o, "vals", None), dict):
                # unsat cover: claim stands if the random search found no witness either
                ok = all(re.search(r"REPLAY search .* hits=0 ", x + " ") for x in outs)
                return ok
            if o.h.expect == "oob" or o.h.note == "marker":
                return any("REPLAY panicked" in x and "VERIF-MARKER" in x for x in outs)
            return any(("REPLAY panicked" in x) and ("VERIF-ASSUME-VIOLATED" not in x) and ("VERIF-NO-SUCH-HARNESS" not in x) for x in outs)

        pre.join()
        st = getattr(self, "selftest", {})
        if not st or not all("selftest ok" in v for v in st.values()):
            self.inconclusive.append(f"reference register self-test on documented examples failed: {st}")
        # plain native executions requested by the plan (e.g. C19: real formatted text vs reference)
        native_viol = []
        if plan.native_cases:
            pre.join()
            uids = []
            for (uid, hn, vals) in plan.native_cases:
                if uid not in uids and not any(k[0] == uid for k in rejected_all):
                    uids.append(uid)
            units = []
            for uid in uids:
                u = unit_by_uid[uid]
                hn = set(h for (a, h, _) in plan.native_cases if a == uid)
                units.append(Unit(u.uid, u.decl, [h for h in u.harnesses if h.name in hn], u.meta, u.pre))
            cases_n = [c for c in plan.native_cases if c[0] in uids]
            rr = E.native_replay(os.path.join(self.work, "replay"), units, cases_n, self.dep, self.lock, extra_rt=plan.extra_rt)
            self.native_runs = len(cases_n)
            for i, c in enumerate(cases_n):
                outs = [rr[i].get("dev", ""), rr[i].get("release", "")]
                if any(("REPLAY panicked" in x and "VERIF-ASSUME-VIOLATED" not in x) for x in outs):
                    native_viol.append((c, rr[i]))
                elif not all("REPLAY returned" in x or "VERIF-ASSUME-VIOLATED" in x for x in outs):
                    self.inconclusive.append(f"native run {c[0]}::{c[1]} did not execute: {outs}")
        log(f"[{pid}] replay stage done at {time.time() - self.t0:.1f}s")
        # negative controls must be refuted AND reproduce
        ctl_report = []
        for o in controls:
            okc = (o.verdict == "ok") and reproduced(o)
            ctl_report.append({"harness": f"{o.uid}::{o.hname}", "refuted_by_solver": o.verdict == "ok", "reproduced_natively": bool(okc),
                               "native": getattr(o, "native", None)})
            if not okc:
                self.inconclusive.append(f"negative control {o.uid}::{o.hname} not refuted+reproduced: {o.verdict} {getattr(o, 'native', None)}")
        if not controls:
            self.inconclusive.append("no negative control in this run")

        violations, knowns, unrepro = [], [], []
        replay_dir = os.path.join(E.OUT, "replays", pid)
        os.makedirs(replay_dir, exist_ok=True)
        for fn in os.listdir(replay_dir):
            if fn.startswith(self.tier + "_"):
                os.remove(os.path.join(replay_dir, fn))

        def emit(kind, uid, hname, role, profile, payload):
            u = unit_by_uid.get(uid)
            rec = {"property": pid, "kind": kind, "unit": uid, "harness": hname, "role": role, "macro_profile": profile,
                   "tier": self.tier, "seed": self.seed, "repo_tree": self.tree,
                   "declaration": u.decl if u else None, "pre": u.pre if u else "", "tag": (u.meta.get("tag") if u else None)}
            rec.update(payload)
            path = os.path.join(replay_dir, f"{self.tier}_{profile}_{uid}_{hname or 'decl'}.json")
            with open(path, "w") as fh:
                json.dump(rec, fh, indent=1, default=str)
            for k in known:
                if k["property"] == pid and k["role"] == role and role:
                    knowns.append((rec, k))
                    return
            violations.append((rec, path))

        replayed = set(id(o) for o in need_replay)
        for o in bad:
            role = o.h.role or o.unit.meta.get("role", "")
            if id(o) not in replayed:
                # same (family, role) as replayed ones; report through those
                continue
            if reproduced(o):
                emit("counterexample", o.uid, o.hname, role, o.profile,
                     {"harness_source": o.h.body, "expect": o.h.expect, "failed_checks": [c.get("description") for c in o.failed],
                      "detail": o.detail, "playback_check": getattr(o, "play_desc", None), "input_bytes": getattr(o, "vals", None),
                      "native": getattr(o, "native", None), "stubs": list(o.h.stubs), "family": o.h.family, "field": o.h.field,
                      "extra_rt": [os.path.basename(x) for x in plan.extra_rt]})
            else:
                unrepro.append(o)
                self.inconclusive.append(f"counterexample for {o.uid}::{o.hname} did not reproduce natively: {o.detail} native={getattr(o, 'native', None)}")
        for (c, nat) in native_viol:
            u = unit_by_uid[c[0]]
            h = [x for x in u.harnesses if x.name == c[1]][0]
            emit("native-run", c[0], c[1], h.role or u.meta.get("role", ""), "dev",
                 {"harness_source": h.body, "expect": "pass", "input_bytes": c[2], "native": nat, "detail": "native execution of the harness body fails", "family": h.family, "stubs": [], "extra_rt": [os.path.basename(x) for x in plan.extra_rt]})
        # type errors in harnesses = the generated API does not have the declared shape
        for (uid, hn, prof), msgs in herr_all.items():
            u = unit_by_uid[uid]
            h = [x for x in u.harnesses if x.name == hn]
            if h and h[0].expect == "control":
                self.inconclusive.append(f"negative control {uid}::{hn} does not type-check")
                continue
            if h and h[0].note.startswith("requires:"):
                # only meaningful when the probe harness of the same unit says the optional API exists
                _, probe, label = h[0].note.split(":", 2)
                po = [o for o in outcomes if o.uid == uid and o.hname == probe and o.profile == prof]
                if not po or po[0].covers.get(label) != "Satisfied":
                    continue
            if u.meta.get("origin") == "universal":
                self.universal_notes.append(f"harness {uid}::{hn} does not type-check: {msgs[0][:300]}")
                continue
            role = (h[0].role if h else "") or u.meta.get("role", "")
            emit("api-shape", uid, hn, role, prof, {"harness_source": h[0].body if h else None, "diagnostic": msgs[0][:3000],
                                                   "detail": "harness written against the documented API does not type-check",
                                                   "family": h[0].family if h else ""})
        # declarations that must also compile inside a #![no_std] crate (the crate's documented target)
        self.nostd = None
        if plan.nostd_units:
            for u in plan.nostd_units:
                unit_by_uid[u.uid] = u
            ncr = Crate(os.path.join(self.work, f"{self.tier}_nostd"), f"vn_{pid.lower()}", list(plan.nostd_units), self.dep, self.lock, nostd=True)
            nrej, _, nfatal, nrounds, nwall = E.accept_pass(ncr, os.path.join(self.work, "target_nostd"))
            self.nostd = {"declarations": len(plan.nostd_units), "rejected": len(nrej), "wall_s": round(nwall, 1)}
            if nfatal:
                self.inconclusive.append("no_std crate: " + nfatal[:500])
            for uid, msgs in nrej.items():
                emit("rejected-valid-declaration", uid, "", "no_std-crate", "dev",
                     {"diagnostic": msgs[0][:3000], "no_std": True, "detail": "a declaration that compiles in a std crate does not compile inside a #![no_std] crate"})
        # rejected declarations
        rejected_valid, rejected_invalid = [], []
        for (uid, prof), msgs in rejected_all.items():
            u = unit_by_uid[uid]
            if u.meta.get("valid") is False:
                rejected_invalid.append((uid, prof))
            else:
                rejected_valid.append((uid, prof, msgs[0][:1500]))
                if plan.accept_is_obligation and u.meta.get("origin") != "universal":
                    emit("rejected-valid-declaration", uid, "", u.meta.get("role", "") or "rule-valid-rejected", prof,
                         {"diagnostic": msgs[0][:3000], "detail": "a declaration that follows the documented rules does not compile"})
        accepted_invalid = []
        if plan.reject_is_obligation:
            semantic = set((rec["unit"], rec["macro_profile"]) for (rec, _) in violations) | set((rec["unit"], rec["macro_profile"]) for (rec, _) in knowns)
            for u in all_units:
                if u.meta.get("valid") is not False:
                    continue
                for prof in plan.macro_profiles:
                    if (u.uid, prof) in rejected_all or any(k.startswith(f"crate ") for k in []):
                        continue
                    if (u.uid, prof) in semantic:
                        continue
                    # the crate this unit was in must have been processed
                    if not any(o.uid == u.uid and o.profile == prof for o in outcomes) and u.harnesses:
                        continue
                    accepted_invalid.append((u.uid, prof))
                    emit("accepted-invalid-declaration", u.uid, "", u.meta.get("role", ""), prof,
                         {"detail": "a declaration the documented rules call invalid compiles (its expansion passed the soundness spec, so this is the bare accept/reject obligation, decided by running the macro, not by the solver)"})
        wall = time.time() - self.t0
        # ---- evidence ------------------------------------------------------------------------------
        okos = [o for o in outcomes if o.verdict == "ok" and o.h.expect != "control"]
        distinct = set()
        for o in okos:
            L = o.unit.meta.get("sig")
            distinct.add((json.dumps(L, default=str), o.h.family, o.h.field, o.profile))
        funcs = set()
        for o in outcomes:
            for f in o.funcs:
                if f and not re.match(r"^[a-z]\d+::", f) and "vany" not in f:
                    funcs.add(f)
        fam = {}
        for o in outcomes:
            fam[o.h.family] = fam.get(o.h.family, 0) + 1
        samples = []
        seenfam = set()
        for o in okos:
            if o.h.family in seenfam:
                continue
            seenfam.add(o.h.family)
            samples.append({"unit": o.uid, "tag": o.unit.meta.get("tag"), "declaration": o.unit.decl, "harness": o.hname, "harness_body": o.h.body,
                            "expect": o.h.expect, "verdict": o.verdict, "cbmc_checks": o.nchecks, "macro_profile": o.profile})
            if len(samples) >= 6:
                break
        if not samples and outcomes:
            o = outcomes[0]
            samples.append({"unit": o.uid, "declaration": o.unit.decl, "harness": o.hname, "verdict": o.verdict})
        if not samples:
            samples.append({"note": "no harness was solved in this run"})
        n_valid_decl = sum(1 for u in all_units if u.meta.get("valid") is not False) * len(plan.macro_profiles)
        n_valid_acc = n_valid_decl - len(rejected_valid)
        nobl = len([o for o in outcomes if o.h.expect != "control"]) + (n_valid_decl if plan.accept_is_obligation else 0)
        ev = {
            "property_id": pid, "tier": self.tier, "seed": self.seed, "level": "model_checking",
            "coverage": {
                "evaluations": len(outcomes),
                "distinct_nontrivial": len(distinct),
                "rule": plan.rule or "one evaluation = one Kani proof harness decided by CBMC/CaDiCaL for ALL values of its symbolic inputs; distinct = distinct (declaration signature, harness family, field, macro host profile); non-trivial = solver verdict SUCCESS with the end-of-harness cover SATISFIED (out-of-range harnesses: panic found and marker unreachable)",
                "samples": samples,
                "obligations": nobl,
                "discharged": len(okos) + (n_valid_acc if plan.accept_is_obligation else 0),
                "acceptance_obligations": {"rule_valid_declarations": n_valid_decl, "accepted": n_valid_acc} if plan.accept_is_obligation else None,
                "candidates_rule_invalid": {"generated": sum(1 for u in all_units if u.meta.get("valid") is False) * len(plan.macro_profiles), "rejected_by_macro": len(rejected_invalid),
                                            "accepted_and_put_through_soundness_spec": sum(1 for u in all_units if u.meta.get("valid") is False) * len(plan.macro_profiles) - len(rejected_invalid)},
                "accepted_invalid_but_sound": len(accepted_invalid),
                "programs": len(set((o.uid, o.profile) for o in outcomes)),
                "exhaustive": bool(plan.exhaustive),
                "technique": "bounded model checking (Kani 0.68 / CBMC 6.11, CaDiCaL) of the compiled macro expansion, symbolic inputs",
                "layouts_generated": len(all_units) * len(plan.macro_profiles),
                "layouts_rejected_by_macro": len(rejected_all),
                "rejected_rule_valid": [{"unit": a, "macro_profile": b, "diagnostic": c[:400], "tag": unit_by_uid[a].meta.get("tag")} for (a, b, c) in rejected_valid][:50],
                "rejected_rule_invalid": len(rejected_invalid),
                "harness_families": fam,
                "cbmc_checks_total": sum(o.nchecks for o in outcomes),
                "functions_encoded": sorted(funcs)[:400],
                "functions_encoded_count": len(funcs),
                "bounds": plan.bounds,
                "queries_discharged": len(okos),
                "solver_time_s": round(sum(o.solver_s for o in outcomes), 3),
                "kani_wall_s": round(self.stats["kani_wall"], 1),
                "acceptance_wall_s": round(self.stats["accept_wall"], 1),
                "negative_controls": ctl_report,
                "oracle_selftest": getattr(self, "selftest", {}),
                "native_executions": getattr(self, "native_runs", 0),
                "second_solver_kissat": self.kissat,
                "no_std_crate": self.nostd,
                "universal_unit_notes": self.universal_notes[:20],
                "known_findings_hit": [{"role": k["role"], "unit": r["unit"]} for (r, k) in knowns],
                "inconclusive": self.inconclusive[:40],
                "unreproduced_counterexamples": len(unrepro),
                "repo_tree_sha": self.tree,
                "tools": self.tools,
                "toolchain": E.KANI_TOOLCHAIN,
                "notes": plan.notes,
            },
            "assumptions": plan.assumptions,
            "wall_s": round(wall, 2),
            "violations": len(violations),
        }
        os.makedirs(os.path.join(E.OUT, "evidence"), exist_ok=True)
        with open(os.path.join(E.OUT, "evidence", f"{pid}.json"), "w") as fh:
            json.dump(ev, fh, indent=1, default=str)
        # ---- report --------------------------------------------------------------------------------
        seenk = set()
        for (rec, k) in knowns:
            key = (k["role"])
            if key in seenk:
                continue
            seenk.add(key)
            print(f"KNOWN-FINDING: property={pid} role={k['role']} {k['text']} (e.g. unit {rec['unit']} harness {rec['harness']})")
        for (rec, path) in violations:
            print(f"VIOLATION property={pid} replay={path}")
            log(f"  -> {rec['kind']} unit={rec['unit']} harness={rec['harness']} role={rec['role']} [{rec['macro_profile']} macro] {rec.get('detail', '')}")
        log(f"[{pid}] {self.tier}: {len(outcomes)} harnesses, {len(okos)} discharged, {len(bad)} failing, {len(violations)} violations, "
            f"{len(knowns)} known, {len(self.inconclusive)} inconclusive, rejected valid={len(rejected_valid)} invalid={len(rejected_invalid)}, wall {wall:.1f}s")
        if violations:
            return 1
        if self.inconclusive:
            for m in self.inconclusive[:20]:
                print("INCONCLUSIVE:", m[:1200])
            return 2
        return 0
