from __future__ import annotations
import argparse, os, sys, json
from . import run as R
from . import props


def main():
    ap = argparse.ArgumentParser()
    ap.add_argument("id")
    ap.add_argument("path", nargs="?")
    ap.add_argument("--tier", default=os.environ.get("VERIF_TIER", "quick"))
    ap.add_argument("--seed", type=int, default=int(os.environ.get("VERIF_SEED", "0") or 0))
    ap.add_argument("--repo", default=os.environ.get("VERIF_REPO", "/repo"))
    a = ap.parse_args()
    if a.id == "replay":
        from . import replay
        sys.exit(replay.main(a.path, a.repo))
    pid = a.id.upper()
    if pid not in props.PLANS:
        print(f"unknown property {pid}", file=sys.stderr)
        sys.exit(2)
    tier = a.tier if a.tier in ("quick", "thorough") else "quick"
    r = R.Runner(pid, tier, a.seed, a.repo)
    plan = props.PLANS[pid](tier, a.seed)
    sys.exit(r.execute(plan))


if __name__ == "__main__":
    main()
