"""Data model for bitfield / bitenum declarations, their concrete attribute syntax, and the rule
oracle (written from the text of properties C09 / C10 / C14 -- never from parsing.rs)."""
from __future__ import annotations
from dataclasses import dataclass, field as dfield
from typing import Optional

NATIVE = (8, 16, 32, 64, 128)


def storage_bits(n: int) -> int:
    for s in NATIVE:
        if n <= s:
            return s
    raise ValueError(n)


def is_native(n: int) -> bool:
    return n in NATIVE


def hexlit(v: int, ty: str = "") -> str:
    s = f"{v:#x}"
    return s + ty


def mask(n: int) -> int:
    return (1 << n) - 1


# ----------------------------------------------------------------------------------------------
# bitenums
# ----------------------------------------------------------------------------------------------
@dataclass
class EnumDef:
    name: str
    bits: int
    variants: list  # [(name, discriminant, cfg) ...]  cfg in (None, 'on', 'off')
    exhaustive: Optional[str] = None  # 'true' | 'false' | 'conditional' | None (omitted)
    legacy: bool = False  # `exhaustive: x` instead of `exhaustive = x`
    derives: str = ""
    repr: str = ""  # explicit #[repr(..)] on the enum
    lit_form: str = "hex"  # how discriminants are written: hex | dec | bin | hex_

    @property
    def active(self):
        return [(n, d) for (n, d, c) in self.variants if c not in ("off", "off_doc", "off_attr")]

    @property
    def returns_result(self) -> bool:
        return self.exhaustive != "true"

    def prim(self) -> str:
        return f"u{storage_bits(self.bits) if self.bits <= 64 else 128}"

    def storage_ty(self) -> str:
        return f"u{self.bits}"

    def decl(self) -> str:
        args = [f"u{self.bits}"]
        if self.exhaustive is not None:
            args.append(f"exhaustive{':' if self.legacy else ' ='} {self.exhaustive}")
        out = []
        out.append(f"#[bitenum({', '.join(args)})]")
        if self.derives:
            out.append(f"#[derive({self.derives})]")
        maxd = max([d for (_, d, _) in self.variants] + [0])
        if self.repr:
            out.append(f"#[repr({self.repr})]")
        elif maxd >= (1 << 63):
            out.append("#[repr(u64)]")
        elif maxd >= (1 << 31):
            # isize is 64 bit here, but be explicit for readability
            pass
        if getattr(self, "enum_doc", ""):
            out.append(f"/// {self.enum_doc}")
        out.append(f"pub enum {self.name} {{")
        for (n, d, c) in self.variants:
            # c: None | 'on' | 'off' | 'on_doc' | 'off_doc' (the cfg attribute preceded by a doc comment)
            if c in ("on_doc", "off_doc"):
                out.append(f"    /// variant {n}")
            if c in ("on", "on_doc"):
                out.append("    #[cfg(all())]")
            elif c in ("off", "off_doc"):
                out.append("    #[cfg(any())]")
            elif c == "off_attr":
                out.append("    #[cfg_attr(all(), cfg(any()))]")
            elif c == "on_attr":
                out.append("    #[cfg_attr(all(), cfg(all()))]")
            if c == "doc":
                out.append(f"    /// documented variant {n}")
                out.append("    #[allow(dead_code)]")
            if n in getattr(self, "implicit", ()):
                out.append(f"    {n},")
            else:
                if self.lit_form == "dec":
                    lit = f"{d}"
                elif self.lit_form == "bin":
                    lit = f"{d:#b}"
                elif self.lit_form == "hex_" and d > 0xffff:
                    h = f"{d:x}"
                    h = h.rjust((len(h) + 3) // 4 * 4, "0")
                    lit = "0x" + "_".join(h[i:i + 4] for i in range(0, len(h), 4))
                else:
                    lit = f"{d:#x}"
                if n in getattr(self, "const_discr", ()):
                    lit = f"VK_{self.name}_{n}"
                if n in getattr(self, "discr_text", {}):
                    # spelled differently (suffix, sign, ...); with wrap_macro the text reaches the
                    # attribute macro through a macro_rules! $literal fragment
                    lit = f"$v_{n}" if getattr(self, "wrap_macro", False) else self.discr_text[n]
                out.append(f"    {n} = {lit},")
        out.append("}")
        if getattr(self, "macro_idents", False):
            # enum name, base type, exhaustive value and variant names reach the attribute macro through macro_rules! fragments
            params, margs, txt = [], [], "\n".join(out)
            import re as _re
            txt = txt.replace(f"#[bitenum(u{self.bits}", "#[bitenum($vbase", 1); params.append("$vbase:ident"); margs.append(f"u{self.bits}")
            if self.exhaustive in ("true", "false"):
                txt = _re.sub(r"(exhaustive\s*[=:]\s*)(true|false)", r"\1$vexh", txt, count=1); params.append("$vexh:literal"); margs.append(self.exhaustive)
            txt = txt.replace(f"pub enum {self.name} {{", "pub enum $vname {", 1); params.append("$vname:ident"); margs.append(self.name)
            for i, (n, d, c) in enumerate(self.variants):
                txt = _re.sub(rf"(?m)^(\s+){n}( =|,)", rf"\1$vv{i}\2", txt, count=1); params.append(f"$vv{i}:ident"); margs.append(n)
            out = ["macro_rules! vmk_enum_idents { (" + ", ".join(params) + ") => {"] + ["    " + l for l in txt.split("\n")] + ["} }", "vmk_enum_idents!(" + ", ".join(margs) + ");"]
        if getattr(self, "wrap_macro", False):
            ns = list(self.discr_text)
            out = ["macro_rules! vmk_enum { (" + ", ".join(f"$v_{n}:literal" for n in ns) + ") => {"] + ["    " + l for l in out] + ["} }", "vmk_enum!(" + ", ".join(self.discr_text[n] for n in ns) + ");"]
        if getattr(self, "const_discr", ()):
            rp = self.repr or "isize"
            pre = [f"pub const VK_{self.name}_{n}: {rp} = {d:#x};" for (n, d, c) in self.variants if n in self.const_discr]
            out = pre + out
        return "\n".join(out)

    def sig(self):
        return ("enum", self.bits, tuple((d, c) for (_, d, c) in self.variants), self.exhaustive, self.legacy, self.repr, self.lit_form, tuple(sorted(getattr(self, "discr_text", {}).items())), getattr(self, "wrap_macro", False), getattr(self, "macro_idents", False), getattr(self, "enum_doc", ""))

    # ---- rule oracle, property C10 ------------------------------------------------------------
    def rule_valid(self) -> bool:
        n = 1 << self.bits
        cnt = len(self.variants)
        has_cfg = any(c not in (None, "doc") for (_, _, c) in self.variants)
        if not (1 <= self.bits <= 64):
            return False
        if getattr(self, "implicit", ()) or getattr(self, "const_discr", ()):
            return False  # every variant needs an explicit integer-literal discriminant
        if getattr(self, "discr_text", None) and not getattr(self, "discr_text_valid", False):
            return False
        if any(d >= n for (_, d, _) in self.variants):
            return False
        if has_cfg and self.exhaustive != "conditional":
            return False
        if self.exhaustive == "conditional":
            return True
        if cnt > n:
            return False
        if self.exhaustive == "true":
            return cnt == n
        return cnt != n


# ----------------------------------------------------------------------------------------------
# field types
# ----------------------------------------------------------------------------------------------
@dataclass
class FType:
    kind: str  # bool | uint | int | enum | optenum | custom | nested
    width: int  # number of bits of the type (bool: 1)
    enum: Optional[EnumDef] = None
    inner_name: str = ""  # custom / nested type name
    path: str = ""  # how the type is spelled in the declaration: '' | 'qualified' | 'abs' | 'std'

    def decl_ty(self) -> str:
        k = self.kind
        if k == "bool":
            return "bool"
        if k == "uint":
            if self.path and not is_native(self.width):
                return ("::" if self.path == "abs" else "") + f"arbitrary_int::u{self.width}"
            return f"u{self.width}"
        if k == "int":
            return f"i{self.width}"
        if k == "enum":
            return self.enum.name
        if k == "optenum":
            pre = {"": "", "qualified": "core::option::", "abs": "::core::option::", "std": "std::option::"}[self.path]
            return f"{pre}Option<{self.enum.name}>"
        return self.inner_name

    def setter_ty(self) -> str:
        if self.kind == "optenum":
            return self.enum.name
        return self.decl_ty()

    def getter_ty(self) -> str:
        if self.kind == "optenum":
            return f"Result<{self.enum.name}, u{storage_bits(self.width)}>"
        return self.decl_ty()

    def sig(self):
        e = self.enum.sig() if self.enum else None
        return (self.kind, self.width, e, self.path)


def T_bool():
    return FType("bool", 1)


def T_uint(w):
    return FType("uint", w)


def T_int(w):
    return FType("int", w)


# ----------------------------------------------------------------------------------------------
# fields and layouts
# ----------------------------------------------------------------------------------------------
@dataclass
class Field:
    name: str
    ty: FType
    ranges: list  # [(lo, n)] in declaration order, r0 = least significant
    array: Optional[tuple] = None  # (K, stride, explicit_stride)
    access: str = "rw"  # 'r' | 'w' | 'rw' | ''
    form: str = "auto"  # 'auto' | 'bits1' (single bit written as bits(n..=n)) | 'list' (force list syntax)
    raw_attr: Optional[str] = None  # verbatim attribute text for ill-formed candidates (e.g. lo > hi)
    doc: Optional[str] = None
    arg_order: str = "ras"  # order of (r)ange, (a)ccess, (s)tride inside the attribute
    raw_ident: bool = False  # declared as r#<name> (name is a keyword); with_/set_ drop the prefix
    attr_split: str = ""  # '' | 'access_last' | 'access_first': the arguments spread over two attributes
    doc_hidden: bool = False  # #[doc(hidden)] on the field
    zero_pad: bool = False  # bit positions / stride written with a leading zero (010 is decimal ten)
    list_trailing_comma: bool = False  # [0..=3, 8..=11,]
    args_trailing_comma: bool = False  # #[bits(8..=15, rw,)]
    list_split: int = 0  # > 0: the first `list_split` entries in one attribute, the rest in a second #[bits([..])]
    list_split_other_kw: bool = False  # the second attribute of a split list uses the other keyword (bits <-> bit)
    access_form: str = ""  # '' | 'r,w' | 'w,r': rw written as two specifiers

    @property
    def readable(self):
        return "r" in self.access

    @property
    def writable(self):
        return "w" in self.access

    @property
    def nbits(self):
        return sum(n for (_, n) in self.ranges)

    @property
    def K(self):
        return self.array[0] if self.array else None

    @property
    def stride(self):
        return self.array[1] if self.array else 0

    def is_list(self):
        return len(self.ranges) > 1 or self.form in ("list", "bit_list")

    def attr(self, legacy=False) -> str:
        if self.raw_attr is not None:
            return self.raw_attr
        args = []
        Z = (lambda v: f"0{v}") if self.zero_pad else (lambda v: f"{v}")
        second_list = None
        if self.is_list():
            items = []
            for (lo, n) in self.ranges:
                items.append(Z(lo) if n == 1 else f"{Z(lo)}..={Z(lo + n - 1)}")
            kw = "bit" if self.form == "bit_list" else "bits"
            tc = "," if self.list_trailing_comma else ""
            if self.list_split and 0 < self.list_split < len(items):
                second_list = "[" + ", ".join(items[self.list_split:]) + tc + "]"
                items = items[:self.list_split]
            else:
                second_list = None
            args.append("[" + ", ".join(items) + tc + "]")
        else:
            (lo, n) = self.ranges[0]
            if n == 1 and self.form != "bits1":
                kw = "bit"
                args.append(Z(lo))
            else:
                kw = "bits"
                args.append(f"{Z(lo)}..={Z(lo + n - 1)}")
        acc_txt = self.access or None
        if self.access == "rw" and self.access_form in ("r,w", "w,r"):
            acc_txt = self.access_form.replace(",", ", ")
        parts = {"r": args[0], "a": acc_txt,
                 "s": (f"stride{':' if legacy else ' ='} {Z(self.array[1])}" if (self.array and self.array[2]) else None)}
        if self.attr_split and parts["a"]:
            rest = [parts[k] for k in self.arg_order if k != "a" and parts.get(k)]
            first, second = f"#[{kw}({', '.join(rest)})]", f"#[{kw}({parts['a']})]"
            return (first + "\n    " + second) if self.attr_split == "access_last" else (second + "\n    " + first)
        order = self.arg_order
        if self.is_list() and second_list:
            # the macro only accepts a list continued in a second attribute when both list groups are the
            # first argument of their attribute
            order = "r" + order.replace("r", "")
        args = [parts[k] for k in order if parts.get(k)]
        atc = "," if self.args_trailing_comma else ""
        if self.is_list() and second_list:
            kw2 = ({"bits": "bit", "bit": "bits"}[kw]) if self.list_split_other_kw else kw
            return f"#[{kw}({', '.join(args)}{atc})]" + "\n    " + f"#[{kw2}({second_list})]"
        return f"#[{kw}({', '.join(args)}{atc})]"

    def field_ty(self) -> str:
        t = self.ty.decl_ty()
        if self.array:
            return f"[{t}; {self.array[0]}]"
        return t

    def positions(self, idx=0):
        """bit positions selected by element idx, in value order"""
        out = []
        for (lo, n) in self.ranges:
            for k in range(n):
                out.append(lo + idx * self.stride + k)
        return out

    def all_positions(self):
        out = []
        for i in range(self.K or 1):
            out += self.positions(i)
        return out

    def sig(self):
        return (self.ty.sig(), tuple(self.ranges), self.array, self.access, self.form, self.raw_attr, self.arg_order, self.raw_ident, bool(self.doc), self.attr_split, self.doc_hidden, self.zero_pad, self.list_trailing_comma, self.list_split, self.args_trailing_comma, self.list_split_other_kw, self.access_form)


@dataclass
class Layout:
    base: int  # exposed width N
    fields: list
    default: Optional[tuple] = None  # ('lit', value, 'hex'|'dec') | ('const', value)
    debug: bool = False
    legacy: bool = False  # `default: x`, `stride: x`
    aux: list = dfield(default_factory=list)  # EnumDef / str declarations needed by the fields
    name: str = "S"
    tag: str = ""  # free-text provenance (which generator, which boundary)
    expect_valid: Optional[bool] = None  # filled by rule oracle
    derives: str = ""
    const_name: str = "DEF_CONST"  # name of the named-constant default
    trailing_comma: bool = False  # #[bitfield(u32, default = 1,)]
    vis: str = "pub"  # struct visibility
    via_macro: bool = False  # the declaration is stamped out by a macro_rules! helper (default passed as $d:expr)
    macro_idents: bool = False  # stamped out by macro_rules! with the field names as $f:ident and array lengths as $n:expr
    struct_doc: str = ""  # doc comment on the struct itself
    debug_first: bool = False  # `debug` written before `default`

    @property
    def storage(self):
        return storage_bits(self.base)

    @property
    def native(self):
        return is_native(self.base)

    def base_ty(self):
        return f"u{self.base}"

    def default_value(self) -> int:
        return self.default[1] if self.default else 0

    def decl(self) -> str:
        out = []
        for a in self.aux:
            out.append(a.decl() if isinstance(a, EnumDef) else a)
        args = [self.base_ty()]
        if self.default:
            sep = ":" if self.legacy else " ="
            if self.default[0] == "lit":
                v = self.default[1]
                form = self.default[2]
                if form == "hex":
                    lit = f"{v:#x}"
                elif form == "bin":
                    lit = f"{v:#b}"
                elif form == "hex_":
                    h = f"{v:x}"
                    h = h.rjust((len(h) + 3) // 4 * 4, "0")
                    lit = "0x" + "_".join(h[i:i + 4] for i in range(0, len(h), 4))
                elif form == "oct":
                    lit = f"{v:#o}"
                elif form == "sfx":
                    lit = f"{v:#X}".replace("0X", "0x") + f"_u{self.storage}"
                elif form == "dec_sfx":
                    lit = f"{v}u{self.storage}"
                else:
                    lit = f"{v}"
                args.append(f"default{sep} {lit}")
            else:
                v = self.default[1]
                if self.native:
                    out.append(f"pub const {self.const_name}: {self.base_ty()} = {v:#x};")
                else:
                    out.append(f"pub const {self.const_name}: u{self.storage} = {v:#x};")
                args.append(f"default{sep} {self.const_name}")
        if self.debug:
            if self.debug_first:
                args.insert(1, "debug")
            else:
                args.append("debug")
        macro_default = None
        if self.via_macro and self.default:
            for k, a_ in enumerate(args):
                if a_.startswith("default"):
                    macro_default = a_.split(" ", 1)[1].lstrip("=: ").strip() if " " in a_ else None
                    sep_ = ":" if self.legacy else " ="
                    args[k] = f"default{sep_} $d"
        head = len(out)
        out.append(f"#[bitfield({', '.join(args)}{',' if self.trailing_comma else ''})]")
        if self.derives:
            out.append(f"#[derive({self.derives})]")
        if self.struct_doc:
            out.append(f"/// {self.struct_doc}")
        out.append(f"{self.vis + ' ' if self.vis else ''}struct {self.name} {{")
        mparams, margs = [], []
        for k, f in enumerate(self.fields):
            if f.doc:
                out.append(f"    /// {f.doc}")
            if f.doc_hidden:
                out.append("    #[doc(hidden)]")
            out.append(f"    {f.attr(self.legacy)}")
            nm = f"{'r#' if f.raw_ident else ''}{f.name}"
            fty = f.field_ty()
            if self.macro_idents:
                mparams.append(f"$f{k}:ident"); margs.append(nm)
                nm = f"$f{k}"
                if f.array:
                    mparams.append(f"$n{k}:expr"); margs.append(str(f.array[0]))
                    fty = f"[{f.ty.decl_ty()}; $n{k}]"
            out.append(f"    {nm}: {fty},")
        out.append("}")
        if self.macro_idents:
            body = out[head:]
            # the base type and (once) an access specifier travel through the macro as identifiers too
            for k_, l_ in enumerate(body):
                if l_.endswith(f"struct {self.name} {{"):
                    body[k_] = l_.replace(f"struct {self.name} {{", "struct $vname {")
                    mparams.append("$vname:ident"); margs.append(self.name)
            bt = self.base_ty()
            if body[0].startswith(f"#[bitfield({bt}"):
                body[0] = body[0].replace(f"#[bitfield({bt}", "#[bitfield($vbase", 1)
                mparams.append("$vbase:ident"); margs.append(bt)
            for k_, l_ in enumerate(body):
                if l_.strip().startswith("#[bit") and l_.rstrip().endswith(", rw)]"):
                    body[k_] = l_.rstrip()[:-len("rw)]")] + "$vacc)]"
                    mparams.append("$vacc:ident"); margs.append("rw")
                    break
            out = out[:head] + ["macro_rules! vmk_fields { (" + ", ".join(mparams) + ") => {"] + ["    " + l for l in body] + ["} }", "vmk_fields!(" + ", ".join(margs) + ");"]
        if macro_default is not None:
            body = out[head:]
            out = out[:head] + ["macro_rules! vmk_decl { ($d:expr) => {"] + ["    " + l for l in body] + ["} }", f"vmk_decl!({macro_default});"]
        return "\n".join(out)

    def sig(self):
        return (self.base, tuple(f.sig() for f in self.fields), self.default, self.debug, self.legacy, self.const_name, self.trailing_comma, self.debug_first, self.via_macro, self.macro_idents, self.struct_doc)

    # ---- rule oracle, property C09 -------------------------------------------------------------
    def rule_valid(self) -> bool:
        for f in self.fields:
            if f.raw_attr is not None:
                return False  # only used for ill-formed candidates
            if not f.ranges:
                return False
            if any(n < 1 for (_, n) in f.ranges):
                return False
            nb = f.nbits
            if f.ty.kind == "bool":
                if nb != 1 or len(f.ranges) != 1:
                    return False
            elif nb != f.ty.width:
                return False
            if f.array:
                K, s, explicit = f.array
                if K < 2:
                    return False
                if len(f.ranges) == 1:
                    if s < nb:
                        return False
                elif not explicit:
                    return False
            if max(f.all_positions()) >= self.base:
                return False
        if self.default and self.default[1] >= (1 << self.base):
            return False
        return True

    # ---- rule oracle, property C14 -------------------------------------------------------------
    def builder_expected(self) -> bool:
        seen = set()
        for f in self.fields:
            if not f.writable:
                continue
            for p in f.all_positions():
                if p in seen:
                    return False
                seen.add(p)
        if self.default:
            return True
        return len(seen) == self.base and all(p < self.base for p in seen)
