"""Harness emission: Rust source for the proof harnesses, written against the *public generated
API* only, from the declaration (model.Layout) and the reference register rt/spec.rs."""
from __future__ import annotations
from .model import *
from .engine import Harness


def rng(ranges):
    return "&[" + ", ".join(f"({lo}, {n})" for (lo, n) in ranges) + "]"


# ---- unsigned values of width w ---------------------------------------------------------------
def uint_sym(w):
    if is_native(w):
        return f"vany::<u{w}>()"
    s = storage_bits(w)
    return f"u{w}::new(vany::<u{s}>() & {mask(w):#x})"


def uint_u128(w, e):
    if is_native(w):
        return f"(({e}) as u128)"
    return f"(({e}).value() as u128)"


def uint_from_u128(w, e):
    """build a uW from a u128 expression known to be < 2^w"""
    if is_native(w):
        return f"(({e}) as u{w})"
    s = storage_bits(w)
    return f"u{w}::new(({e}) as u{s})"


# ---- raw values -------------------------------------------------------------------------------
def raw_sym(L: Layout, var="r"):
    return [f"let {var}: u{L.base} = {uint_sym(L.base)};", f"let {var}128: u128 = {uint_u128(L.base, var)};"]


def raw_of(L: Layout, e):
    return uint_u128(L.base, f"{e}.raw_value()")


# ---- field values -----------------------------------------------------------------------------
def enum_select(E: EnumDef, var, selvar):
    act = E.active
    n = len(act)
    selty = "u8" if n <= 255 else "u16" if n <= 65535 else "u32"
    lines = [f"let {selvar}: {selty} = vany();", f"vassume(({selvar} as u32) < {n});"]
    arms = []
    for i, (nm, d) in enumerate(act[:-1]):
        arms.append(f"{i} => {E.name}::{nm},")
    arms.append(f"_ => {E.name}::{act[-1][0]},")
    lines.append(f"let {var}: {E.name} = match {selvar} {{ " + " ".join(arms) + " };")
    return lines


def val_sym(ft: FType, var):
    k = ft.kind
    if k == "bool":
        return [f"let {var}: bool = vany();"]
    if k == "uint":
        return [f"let {var}: u{ft.width} = {uint_sym(ft.width)};"]
    if k == "int":
        return [f"let {var}: i{ft.width} = vany();"]
    if k in ("enum", "optenum"):
        return enum_select(ft.enum, var, var + "_sel")
    if k == "custom":
        return [f"let {var}: {ft.inner_name} = {ft.inner_name}({uint_sym(ft.width)});"]
    if k == "nested":
        return [f"let {var}: {ft.inner_name} = {ft.inner_name}::new_with_raw_value({uint_sym(ft.width)});"]
    raise ValueError(k)


def val_bits(ft: FType, var):
    k = ft.kind
    if k == "bool":
        return f"({var} as u128)"
    if k == "uint":
        return uint_u128(ft.width, var)
    if k == "int":
        return f"(({var} as u{ft.width}) as u128)"
    if k in ("enum", "optenum"):
        return f"({var} as u128)"
    if k == "custom":
        return uint_u128(ft.width, f"{var}.0")
    if k == "nested":
        return uint_u128(ft.width, f"{var}.raw_value()")
    raise ValueError(k)


def is_variant_expr(E: EnumDef, bits):
    ds = sorted(set(d for (_, d) in E.active))
    return "matches!(" + bits + ", " + " | ".join(f"{d:#x}u128" for d in ds) + ")"


def getter_check(ft: FType, g, want, msg):
    """statements asserting that getter result `g` presents exactly the bits `want` (u128)"""
    k = ft.kind
    if k == "bool":
        return [f'assert!({g} == (({want}) == 1), "{msg}");']
    if k == "int":
        return [f'assert!(({g} as i128) == spec::sext({want}, {ft.width}), "{msg}");']
    if k == "optenum":
        E = ft.enum
        prim = f"u{storage_bits(ft.width)}"
        return [
            f"match {g} {{",
            f'    Ok(e) => {{ assert!({is_variant_expr(E, want)}, "{msg} (Ok for a value that is no variant)"); assert!((e as u128) == ({want}), "{msg} (wrong variant)"); }}',
            f'    Err(p) => {{ let p: {prim} = p; assert!(!{is_variant_expr(E, want)}, "{msg} (Err for a variant)"); assert!((p as u128) == ({want}), "{msg} (Err payload)"); }}',
            "}",
        ]
    return [f'assert!({val_bits(ft, g)} == ({want}), "{msg}");']


def getter_eq_value(ft: FType, g, v, msg):
    """read-back: getter result g equals written value v"""
    if ft.kind == "optenum":
        return [f'match {g} {{ Ok(e) => assert!((e as u128) == ({v} as u128), "{msg}"), Err(_) => assert!(false, "{msg} (Err after writing a variant)") }}']
    return [f'assert!({val_bits(ft, g)} == {val_bits(ft, v)}, "{msg}");']


def idx_lines(f: Field, var="i", inrange=True):
    if not f.array:
        return [], "", "0u32"
    K, s, _ = f.array
    lines = [f"let {var}: usize = vany();"]
    lines.append(f"vassume({var} < {K});" if inrange else f"vassume({var} >= {K});")
    return lines, var, f"(({var} as u32) * {s})"


def call_get(f: Field, obj, i):
    return f"{obj}.{'r#' if f.raw_ident else ''}{f.name}({i})"


def call_with(f: Field, obj, i, v):
    return f"{obj}.with_{f.name}({i + ', ' if i else ''}{v})"


def call_set(f: Field, obj, i, v):
    return f"{obj}.set_{f.name}({i + ', ' if i else ''}{v});"


def funcs_for(L: Layout, f: Field, ops):
    S = L.name
    out = [f"{S}::new_with_raw_value", f"{S}::raw_value"]
    for o in ops:
        out.append(f"{S}::{o}{f.name}")
    if f.ty.kind == "uint" and not is_native(f.ty.width):
        out.append(f"arbitrary_int::UInt::extract_u{L.storage}")
    if not L.native:
        out.append(f"arbitrary_int::UInt::<u{L.storage},{L.base}>::value/extract_u{L.storage}")
    return tuple(out)


# ---- harness families -------------------------------------------------------------------------
def h_get(L: Layout, f: Field, prop, name=None, spec_ranges=None, spec_shift_mul=None) -> Harness:
    b = raw_sym(L)
    b.append(f"let x = {L.name}::new_with_raw_value(r);")
    il, i, sh = idx_lines(f)
    if spec_shift_mul is not None and f.array:
        sh = f"((i as u32) * {spec_shift_mul})"
    b += il
    b.append(f"let g: {f.ty.getter_ty()} = {call_get(f, 'x', i)};")
    b.append(f"let want: u128 = spec::get(r128, {rng(spec_ranges or f.ranges)}, {sh});")
    b += getter_check(f.ty, "g", "want", f"VERIF getter {f.name} != declared bits")
    b.append("vend!();")
    return Harness(name or f"get_{f.name}", "\n".join(b), "pass", "get", prop, f.name, funcs_for(L, f, [""]))


def h_set(L: Layout, f: Field, prop, name=None, check_set=True, check_with=True) -> Harness:
    b = raw_sym(L)
    b.append(f"let x = {L.name}::new_with_raw_value(r);")
    il, i, sh = idx_lines(f)
    b += il
    b += val_sym(f.ty, "v")
    b.append(f"let want: u128 = spec::put(r128, {rng(f.ranges)}, {sh}, {val_bits(f.ty, 'v')});")
    b.append(f"let y = {call_with(f, 'x', i, 'v')};")
    b.append(f'assert!({raw_of(L, "y")} == want, "VERIF with_{f.name}: result differs from reference scatter");')
    b.append(f'assert!({raw_of(L, "x")} == r128, "VERIF with_{f.name}: receiver changed");')
    if f.readable:
        b.append(f"let g: {f.ty.getter_ty()} = {call_get(f, 'y', i)};")
        b += getter_eq_value(f.ty, "g", "v", f"VERIF read-back after with_{f.name}")
    if check_set:
        b.append("let mut z = x;")
        b.append(call_set(f, "z", i, "v"))
        b.append(f'assert!({raw_of(L, "z")} == want, "VERIF set_{f.name}: result differs from reference scatter");')
        b.append(f'assert!({raw_of(L, "z")} == {raw_of(L, "y")}, "VERIF set_{f.name} != with_{f.name}");')
    b.append("vend!();")
    ops = ["with_", "set_"] + ([""] if f.readable else [])
    return Harness(name or f"set_{f.name}", "\n".join(b), "pass", "set", prop, f.name, funcs_for(L, f, ops))


def h_oob(L: Layout, f: Field, prop, op) -> Harness:
    """index >= K must panic before anything is returned (marker must be unreachable)"""
    assert f.array
    b = raw_sym(L)
    b.append(f"let x = {L.name}::new_with_raw_value(r);")
    il, i, sh = idx_lines(f, inrange=False)
    b += il
    if op == "get":
        b.append(f"let _g = {call_get(f, 'x', i)};")
    else:
        b += val_sym(f.ty, "v")
        if op == "with":
            b.append(f"let _y = {call_with(f, 'x', i, 'v')};")
        else:
            b.append("let mut z = x;")
            b.append(call_set(f, "z", i, "v"))
    b.append(f'assert!(false, "VERIF-MARKER: {op} of {f.name} returned for an index >= {f.K}");')
    opn = {"get": "", "with": "with_", "set": "set_"}[op]
    return Harness(f"oob_{op}_{f.name}", "\n".join(b), "oob", "oob_" + op, prop, f.name, funcs_for(L, f, [opn]))


def h_total(L: Layout, f: Field, prop) -> Harness:
    """C16: call every generated operation of the field on unconstrained inputs; assert nothing"""
    b = raw_sym(L)
    b.append(f"let x = {L.name}::new_with_raw_value(r);")
    il, i, sh = idx_lines(f)
    b += il
    ops = []
    if f.readable:
        b.append(f"let _g = {call_get(f, 'x', i)};")
        ops.append("")
    if f.writable:
        b += val_sym(f.ty, "v")
        b.append(f"let y = {call_with(f, 'x', i, 'v')};")
        b.append("let mut z = x;")
        b.append(call_set(f, "z", i, "v"))
        b.append("let _a = y.raw_value();")
        b.append("let _b = z.raw_value();")
        ops += ["with_", "set_"]
    b.append("vend!();")
    return Harness(f"total_{f.name}", "\n".join(b), "pass", "total", prop, f.name, funcs_for(L, f, ops))


# ---- negative controls (must be refuted by the solver and reproduce natively) ------------------
def ctl_get(L: Layout, f: Field, prop) -> Harness:
    """getter compared with a reference that is off by one bit position"""
    lo, n = f.ranges[0]
    top = max(f.all_positions())
    if top + 1 < L.base:
        rr = [(lo + 1, n)] + list(f.ranges[1:])
    else:
        rr = [(lo - 1, n)] + list(f.ranges[1:]) if lo > 0 else [(lo, n)]
    h = h_get(L, f, prop, name=f"ctl_get_{f.name}", spec_ranges=rr)
    if rr == list(f.ranges):
        # nowhere to shift to (full-width field): flip the lowest bit of the reference instead
        h.body = h.body.replace("let want: u128 = spec::get(", "let want: u128 = 1u128 ^ spec::get(", 1)
    h.expect, h.family = "control", "control"
    return h


def ctl_set(L: Layout, f: Field, prop) -> Harness:
    """setter compared with a reference that has one value bit flipped"""
    h = h_set(L, f, prop, name=f"ctl_set_{f.name}")
    h.body = h.body.replace("let want: u128 = spec::put(", "let want: u128 = (1u128 << %d) ^ spec::put(" % f.ranges[0][0], 1)
    h.expect, h.family = "control", "control"
    return h


def ctl_oob(L: Layout, f: Field, prop, op="get") -> Harness:
    """out-of-range harness whose assumption wrongly admits the last valid index: marker reachable"""
    h = h_oob(L, f, prop, op)
    h.body = h.body.replace(f"vassume(i >= {f.K});", f"vassume(i >= {f.K - 1});", 1)
    h.name = f"ctl_oob_{op}_{f.name}"
    h.expect, h.family, h.note = "control", "control", "marker"
    return h


def h_set2(L: Layout, f: Field, prop, name=None) -> Harness:
    """two writes to the same field (the second must win completely), then a read: needs stale bits
    from the first write to be cleared, in the field and nowhere else"""
    b = raw_sym(L)
    b.append(f"let x = {L.name}::new_with_raw_value(r);")
    il, i, sh = idx_lines(f)
    b += il
    b += val_sym(f.ty, "v1")
    b += val_sym(f.ty, "v2")
    b.append(f"let y = {call_with(f, call_with(f, 'x', i, 'v1'), i, 'v2')};")
    b.append(f"let want: u128 = spec::put(r128, {rng(f.ranges)}, {sh}, {val_bits(f.ty, 'v2')});")
    b.append(f'assert!({raw_of(L, "y")} == want, "VERIF with_{f.name}(v1).with_{f.name}(v2): result differs from writing v2 alone");')
    b.append("let mut z = x;")
    b.append(call_set(f, "z", i, "v1"))
    b.append(call_set(f, "z", i, "v2"))
    b.append(f'assert!({raw_of(L, "z")} == want, "VERIF set_{f.name}(v1); set_{f.name}(v2): result differs from writing v2 alone");')
    if f.readable:
        b.append(f"let g: {f.ty.getter_ty()} = {call_get(f, 'y', i)};")
        b += getter_eq_value(f.ty, "g", "v2", f"VERIF read-back after two writes to {f.name}")
        b.append(f"let g2: {f.ty.getter_ty()} = {call_get(f, 'z', i)};")
        b += getter_eq_value(f.ty, "g2", "v2", f"VERIF read-back after two set_ writes to {f.name}")
    b.append("vend!();")
    ops = ["with_", "set_"] + ([""] if f.readable else [])
    return Harness(name or f"set2_{f.name}", "\n".join(b), "pass", "set_twice", prop, f.name, funcs_for(L, f, ops))
