// Reference N-bit register, written from the property statements only (C01..C05, C12).
//
// A field is an ordered list of (lo, n) ranges; the t-th selected bit in list order (r0 first,
// ascending inside a range) has weight 2^t in the field's value. An array element i is the same
// list moved up by `sh` = i * stride bits. Everything is done one bit at a time: there is no
// shift-and-mask in the style of the generator here, on purpose.
//
// Positions >= 128 do not exist: they read as 0 and writes to them are dropped (only candidate
// declarations that are not rule-valid ever mention such positions).

#![allow(dead_code)]

pub type Ranges = [(u32, u32)];

#[inline(always)]
pub fn bit(raw: u128, p: u32) -> u128 {
    if p < 128 {
        (raw >> p) & 1
    } else {
        0
    }
}

#[inline(always)]
pub fn with_bit(raw: u128, p: u32, b: u128) -> u128 {
    if p < 128 {
        if b & 1 == 1 {
            raw | (1u128 << p)
        } else {
            raw & !(1u128 << p)
        }
    } else {
        raw
    }
}

/// Total number of bits selected by a list.
pub fn width(ranges: &Ranges) -> u32 {
    let mut w = 0u32;
    let mut j = 0usize;
    while j < ranges.len() {
        w += ranges[j].1;
        j += 1;
    }
    w
}

/// Gather: value of the field whose ranges are `ranges`, element offset `sh`.
pub fn get(raw: u128, ranges: &Ranges, sh: u32) -> u128 {
    let mut out = 0u128;
    let mut t = 0u32;
    let mut j = 0usize;
    while j < ranges.len() {
        let (lo, n) = ranges[j];
        let mut k = 0u32;
        while k < n {
            if t < 128 {
                out |= bit(raw, lo + sh + k) << t;
            }
            t += 1;
            k += 1;
        }
        j += 1;
    }
    out
}

/// Scatter: the register after writing `bits` into the field; every unselected bit is kept.
pub fn put(raw: u128, ranges: &Ranges, sh: u32, bits: u128) -> u128 {
    let mut out = raw;
    let mut t = 0u32;
    let mut j = 0usize;
    while j < ranges.len() {
        let (lo, n) = ranges[j];
        let mut k = 0u32;
        while k < n {
            out = with_bit(out, lo + sh + k, bit(bits, t));
            t += 1;
            k += 1;
        }
        j += 1;
    }
    out
}

/// Mask of all positions selected by the list at offset `sh`.
pub fn mask(ranges: &Ranges, sh: u32) -> u128 {
    let mut out = 0u128;
    let mut j = 0usize;
    while j < ranges.len() {
        let (lo, n) = ranges[j];
        let mut k = 0u32;
        while k < n {
            out = with_bit(out, lo + sh + k, 1);
            k += 1;
        }
        j += 1;
    }
    out
}

/// Two's-complement reading of the low `n` bits of `bits` (1 <= n <= 128).
pub fn sext(bits: u128, n: u32) -> i128 {
    // weight of bit n-1 is -2^(n-1); all others positive
    let mut acc: i128 = 0;
    let mut k = 0u32;
    while k < n {
        if bit(bits, k) == 1 {
            if k == n - 1 {
                if k == 127 {
                    acc = acc.wrapping_add(i128::MIN);
                } else {
                    acc -= 1i128 << k;
                }
            } else {
                acc += 1i128 << k;
            }
        }
        k += 1;
    }
    acc
}

/// 2^n - 1 as u128 (n <= 128), one bit at a time.
pub fn ones(n: u32) -> u128 {
    let mut out = 0u128;
    let mut k = 0u32;
    while k < n && k < 128 {
        out |= 1u128 << k;
        k += 1;
    }
    out
}
