// C19: recorder behind the stubs of core's DebugStruct builder.
//
// The macro's responsibility ends at the calls it makes on the formatter: debug_struct(NAME),
// .field(NAME_i, &VALUE_i) ..., .finish(). Under Kani these three functions are replaced
// (-Z stubbing) by the recorders below; the harness then compares what was recorded with the
// declaration and with the reference register. core's own rendering of a DebugStruct is trusted
// (and exercised for real in the native replay of every harness).
#![allow(dead_code, static_mut_refs)]

pub const MAXF: usize = 24;
pub const VAL_BYTES: usize = 32;

pub struct Rec {
    pub struct_calls: usize,
    pub finish_calls: usize,
    pub name_ptr: *const u8,
    pub name_len: usize,
    pub nfields: usize,
    pub fname_ptr: [*const u8; MAXF],
    pub fname_len: [usize; MAXF],
    pub fval: [[u8; VAL_BYTES]; MAXF],
    pub fval_size: [usize; MAXF],
}

pub static mut REC: Rec = Rec {
    struct_calls: 0,
    finish_calls: 0,
    name_ptr: core::ptr::null(),
    name_len: 0,
    nfields: 0,
    fname_ptr: [core::ptr::null(); MAXF],
    fname_len: [0; MAXF],
    fval: [[0; VAL_BYTES]; MAXF],
    fval_size: [0; MAXF],
};

pub fn reset() {
    unsafe {
        REC.struct_calls = 0;
        REC.finish_calls = 0;
        REC.nfields = 0;
        REC.name_len = 0;
    }
}

fn bytes_eq(p: *const u8, len: usize, s: &str) -> bool {
    if len != s.len() {
        return false;
    }
    let b = s.as_bytes();
    let mut i = 0;
    while i < len {
        if unsafe { *p.add(i) } != b[i] {
            return false;
        }
        i += 1;
    }
    true
}

pub fn struct_name_is(s: &str) -> bool {
    unsafe { REC.struct_calls == 1 && bytes_eq(REC.name_ptr, REC.name_len, s) }
}
pub fn field_name_is(i: usize, s: &str) -> bool {
    unsafe { i < REC.nfields && bytes_eq(REC.fname_ptr[i], REC.fname_len[i], s) }
}
pub fn nfields() -> usize {
    unsafe { REC.nfields }
}
pub fn finish_calls() -> usize {
    unsafe { REC.finish_calls }
}
/// the i-th recorded value, reinterpreted as the declared getter type
pub fn value<T: Copy>(i: usize) -> Option<T> {
    unsafe {
        if i < REC.nfields && REC.fval_size[i] == core::mem::size_of::<T>() {
            Some(core::ptr::read_unaligned(REC.fval[i].as_ptr() as *const T))
        } else {
            None
        }
    }
}

// ---- the stubs ---------------------------------------------------------------------------------
#[cfg(kani)]
pub fn stub_debug_struct<'a: 'a, 'b>(f: &'b mut core::fmt::Formatter<'a>, name: &str) -> core::fmt::DebugStruct<'b, 'a> {
    unsafe {
        REC.struct_calls += 1;
        REC.name_ptr = name.as_ptr();
        REC.name_len = name.len();
        // DebugStruct { fmt: &mut Formatter, result: fmt::Result, has_fields: bool }
        core::mem::transmute::<(&'b mut core::fmt::Formatter<'a>, bool, bool), core::fmt::DebugStruct<'b, 'a>>((f, false, false))
    }
}

#[cfg(kani)]
pub fn stub_field<'a: 'a, 'b: 'b, 'c>(s: &'c mut core::fmt::DebugStruct<'a, 'b>, name: &str, value: &dyn core::fmt::Debug) -> &'c mut core::fmt::DebugStruct<'a, 'b> {
    unsafe {
        let i = REC.nfields;
        if i < MAXF {
            REC.fname_ptr[i] = name.as_ptr();
            REC.fname_len[i] = name.len();
            let sz = core::mem::size_of_val(value);
            REC.fval_size[i] = sz;
            let (data, _vt): (*const u8, *const ()) = core::mem::transmute::<&dyn core::fmt::Debug, (*const u8, *const ())>(value);
            let mut k = 0;
            while k < sz && k < VAL_BYTES {
                REC.fval[i][k] = *data.add(k);
                k += 1;
            }
        }
        REC.nfields = i + 1;
    }
    s
}

#[cfg(kani)]
pub fn stub_finish<'a: 'a, 'b: 'b>(_s: &mut core::fmt::DebugStruct<'a, 'b>) -> core::fmt::Result {
    unsafe {
        REC.finish_calls += 1;
    }
    Ok(())
}

pub struct NullSink;
impl core::fmt::Write for NullSink {
    fn write_str(&mut self, _s: &str) -> core::fmt::Result {
        Ok(())
    }
}
