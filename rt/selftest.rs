// Translator validation for the reference register: the repository's own documented examples
// (README and bitbybit-tests) pushed through rt/spec.rs natively, before any solver verdict is
// believed. The expected values are computed the way the test-suite computes them (plain shifts,
// reverse_bits, swap_bytes) or are the literals quoted in the README.
#![allow(dead_code)]
use super::spec;

fn s_imm(value: u32) -> u128 {
    let imm_0_4 = (value >> 7) & 0x1f;
    let imm_5_11 = (value >> 25) & 0x7f;
    (imm_0_4 | (imm_5_11 << 5)) as u128
}
fn b_imm(value: u32) -> u128 {
    let imm_0_3 = (value >> 8) & 0b1111;
    let imm_10 = (value >> 7) & 0b1;
    let imm_4_9 = (value >> 25) & 0b111111;
    let imm_11 = value >> 31;
    (imm_0_3 | (imm_4_9 << 4) | (imm_10 << 10) | (imm_11 << 11)) as u128
}

pub fn spec_selftest() -> Result<u32, String> {
    let mut n = 0u32;
    macro_rules! ck {
        ($a:expr, $b:expr, $what:expr) => {{
            n += 1;
            let (a, b) = ($a, $b);
            if a != b {
                return Err(format!("{}: {:#x} != {:#x}", $what, a, b));
            }
        }};
    }
    // README: nibble array on u64, stride 4: nibble 3 of 0x12345678_ABCDEFFF is 0xE ...
    let raw = 0x1234_5678_ABCD_EFFFu128;
    ck!(spec::get(raw, &[(0, 4)], 3 * 4), 0xE, "README nibble(3)");
    ck!(spec::get(raw, &[(0, 4)], 0), 0xF, "README nibble(0)");
    ck!(spec::put(raw, &[(0, 4)], 0, 3), 0x1234_5678_ABCD_EFF3, "README with_nibble(0, 3)");
    ck!(spec::put(raw, &[(0, 4)], 15 * 4, 0xA), 0xA234_5678_ABCD_EFFF, "with_nibble(15, 0xA)");
    // RISC-V S and B immediates (bitfield_tests.rs test_noncontiguous_ranges)
    for x in [0u32, 0xFFFF_FFFF, 0x1111_1111, 0x2222_2222, 0x1234_5678, 0x9876_5432] {
        ck!(spec::get(x as u128, &[(7, 5), (25, 7)], 0), s_imm(x), "S imm");
        ck!(spec::get(x as u128, &[(8, 4), (25, 6), (7, 1), (31, 1)], 0), b_imm(x), "B imm");
        // scatter is the inverse of gather on the selected bits and keeps the rest
        let v = s_imm(!x);
        let y = spec::put(x as u128, &[(7, 5), (25, 7)], 0, v);
        ck!(spec::get(y, &[(7, 5), (25, 7)], 0), v, "S imm write/read");
        ck!(y & !spec::mask(&[(7, 5), (25, 7)], 0), (x as u128) & !spec::mask(&[(7, 5), (25, 7)], 0), "S imm write keeps other bits");
        // byte swap
        ck!(spec::get(x as u128, &[(24, 8), (16, 8), (8, 8), (0, 8)], 0), x.swap_bytes() as u128, "byteswap read");
        ck!(spec::put(0, &[(24, 8), (16, 8), (8, 8), (0, 8)], 0, x as u128), x.swap_bytes() as u128, "byteswap write");
    }
    // bit reversal on u8 and u7, all values
    let rev8: [(u32, u32); 8] = [(7, 1), (6, 1), (5, 1), (4, 1), (3, 1), (2, 1), (1, 1), (0, 1)];
    for x in 0u32..=255 {
        ck!(spec::get(x as u128, &rev8, 0), (x as u8).reverse_bits() as u128, "bitswap8 read");
        ck!(spec::put(0, &rev8, 0, x as u128), (x as u8).reverse_bits() as u128, "bitswap8 write");
    }
    let rev7: [(u32, u32); 7] = [(6, 1), (5, 1), (4, 1), (3, 1), (2, 1), (1, 1), (0, 1)];
    for x in 0u32..128 {
        ck!(spec::get(x as u128, &rev7, 0), ((x as u8).reverse_bits() >> 1) as u128, "bitswap7 read");
    }
    // even-bit arrays (test_noncontiguous_ranges_array_*): element i of [0,2,4,6] with stride 1 ...
    ck!(spec::get(0b1010_0101, &[(0, 1), (2, 1), (4, 1), (6, 1)], 0), 0b0011, "even bits element 0");
    ck!(spec::get(0b1010_0101, &[(0, 1), (2, 1), (4, 1), (6, 1)], 1), 0b1100, "even bits element 1 (stride 1)");
    // signed (signed_masking tests): -5 as i8 in bits 24..=31, -100 as i8 at 16..=23, -32012 as i16 at 0..=15
    let t = spec::put(spec::put(spec::put(0, &[(24, 8)], 0, (-5i8 as u8) as u128), &[(16, 8)], 0, (-100i8 as u8) as u128), &[(0, 16)], 0, (-32012i16 as u16) as u128);
    ck!(t, 0xFB9C_82F4, "signed_masking8and16 raw");
    n += 3;
    if spec::sext(spec::get(t, &[(24, 8)], 0), 8) != -5 { return Err("sext -5".into()); }
    if spec::sext(spec::get(t, &[(16, 8)], 0), 8) != -100 { return Err("sext -100".into()); }
    if spec::sext(spec::get(t, &[(0, 16)], 0), 16) != -32012 { return Err("sext -32012".into()); }
    n += 4;
    if spec::sext(u128::MAX, 128) != -1 { return Err("sext 128 -1".into()); }
    if spec::sext(1u128 << 127, 128) != i128::MIN { return Err("sext 128 min".into()); }
    if spec::sext(0x7f, 8) != 127 { return Err("sext 127".into()); }
    if spec::sext(0x80, 8) != -128 { return Err("sext -128".into()); }
    ck!(spec::ones(128), u128::MAX, "ones 128");
    ck!(spec::ones(5), 0x1f, "ones 5");
    ck!(spec::width(&[(7, 5), (25, 7)]), 12, "width");
    // positions >= 128 do not exist
    ck!(spec::get(u128::MAX, &[(126, 4)], 0), 0b0011, "beyond 128 reads 0");
    ck!(spec::put(0, &[(126, 4)], 0, 0xf), 3u128 << 126, "beyond 128 dropped");
    Ok(n)
}
