// Shim between the harness bodies and the engine that executes them.
//  * under `cfg(kani)`  : symbolic values, `kani::assume`, `kani::cover!`
//  * natively (replays) : values popped from a recorded byte queue (the vectors printed by
//                         Kani's concrete playback, in call order), assumptions abort the replay
//                         with a distinctive message, covers are recorded.

#![allow(dead_code)]

#[cfg(not(kani))]
pub mod native {
    use std::cell::RefCell;
    use std::collections::VecDeque;
    thread_local! {
        pub static QUEUE: RefCell<VecDeque<Vec<u8>>> = RefCell::new(VecDeque::new());
        pub static COVERS: RefCell<Vec<String>> = RefCell::new(Vec::new());
        // 0 = exhausted queue reads as zero; otherwise xorshift state for random search mode
        pub static RNG: RefCell<u64> = RefCell::new(0);
    }
    pub fn set_queue(v: Vec<Vec<u8>>) {
        QUEUE.with(|q| *q.borrow_mut() = v.into());
        COVERS.with(|c| c.borrow_mut().clear());
    }
    pub fn set_rng(seed: u64) {
        RNG.with(|r| *r.borrow_mut() = seed);
    }
    fn next_byte() -> u8 {
        RNG.with(|r| {
            let mut x = *r.borrow();
            if x == 0 {
                return 0;
            }
            x ^= x << 13;
            x ^= x >> 7;
            x ^= x << 17;
            *r.borrow_mut() = x;
            // bias towards interesting bytes: 1/4 zero, 1/4 0xff, rest uniform
            match (x >> 40) & 3 {
                0 => 0,
                1 => 0xff,
                _ => (x >> 24) as u8,
            }
        })
    }
    pub fn pop(n: usize) -> Vec<u8> {
        let v = QUEUE.with(|q| q.borrow_mut().pop_front());
        match v {
            Some(mut v) => {
                // Kani hands out exactly size_of::<T>() bytes per any(); be lenient about length
                v.resize(n, 0);
                v
            }
            // an exhausted queue reads as zero (Kani does the same for unconstrained leftovers),
            // or as random bytes in search mode
            None => (0..n).map(|_| next_byte()).collect(),
        }
    }
    pub fn cover(label: &str) {
        COVERS.with(|c| c.borrow_mut().push(label.to_string()));
    }
    pub fn covers() -> Vec<String> {
        COVERS.with(|c| c.borrow().clone())
    }
}

pub trait VAny: Sized {
    fn vany() -> Self;
}

macro_rules! imp_int {
    ($($t:ty),*) => {$(
        impl VAny for $t {
            #[inline(always)]
            fn vany() -> Self {
                #[cfg(kani)]
                { kani::any() }
                #[cfg(not(kani))]
                {
                    let b = native::pop(core::mem::size_of::<$t>());
                    let mut a = [0u8; core::mem::size_of::<$t>()];
                    a.copy_from_slice(&b);
                    <$t>::from_le_bytes(a)
                }
            }
        }
    )*};
}
imp_int!(u8, u16, u32, u64, u128, usize, i8, i16, i32, i64, i128);

impl VAny for bool {
    #[inline(always)]
    fn vany() -> Self {
        #[cfg(kani)]
        { kani::any() }
        #[cfg(not(kani))]
        { native::pop(1)[0] & 1 == 1 }
    }
}

#[inline(always)]
pub fn vany<T: VAny>() -> T {
    T::vany()
}

#[inline(always)]
pub fn vassume(c: bool) {
    #[cfg(kani)]
    kani::assume(c);
    #[cfg(not(kani))]
    if !c {
        panic!("VERIF-ASSUME-VIOLATED");
    }
}

#[macro_export]
macro_rules! vcover {
    ($cond:expr, $label:expr) => {{
        #[cfg(kani)]
        kani::cover!($cond, $label);
        #[cfg(not(kani))]
        if $cond {
            $crate::rt::vany::native::cover($label);
        }
    }};
}

/// End-of-harness reachability witness: must come back SATISFIED for the verdict to count.
#[macro_export]
macro_rules! vend {
    () => {
        $crate::vcover!(true, "VERIF-END")
    };
}
