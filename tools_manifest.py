#!/usr/bin/env python3
"""Regenerates MANIFEST.json from the table below (kept in one place so it stays valid)."""
import json, os
from vlib import props

NA = {
    "C15": "const-evaluability is a type-system fact decided by rustc's const checker: there is no input, schedule or state for a solver to range over; 'compile-time result == run-time result' follows from C01-C08 plus determinism of safe integer code. A compile test is a different technique (DESIGN.md section 5).",
    "C17": "presence/absence of accessors is name resolution (E0599), nothing a solver can quantify over; presence is exercised by every other check (a missing accessor surfaces there as an api-shape violation), the semantic half is C02's non-interference clause (DESIGN.md section 5).",
    "C18": "no_std / deny(missing_docs) / absence of `unsafe` are compile-regime and token-stream facts; nothing is executed, so there is nothing to encode for a solver (DESIGN.md section 5).",
}
LEVEL = {
    "C01": ("getter == bit-by-bit reference extract for ALL raw values of every layout in the corpus; the solver verdict is complete per layout (no input-dependent loops), the layout corpus is the bound", "4 C01"),
}
NOTE = "Trusted: rustc/Kani MIR->GOTO translation, CBMC 6.11 + CaDiCaL, arbitrary-int 1.3.0 as locked (its real bodies are executed), the reference register rt/spec.rs (validated on the repository's documented examples each run). Bound: the layout corpus enumerated by the run (see evidence.bounds)."

def main():
    checks = []
    for pid in sorted(props.PLANS):
        text, ref = LEVEL.get(pid, ("see DESIGN.md", "4 " + pid))
        checks.append({
            "property_id": pid,
            "quick_cmd": f"./check {pid} --tier quick",
            "thorough_cmd": f"./check {pid} --tier thorough",
            "evidence_file": f"/verif/evidence/{pid}.json",
            "replay_cmd_template": "./check replay {path}",
            "engine": "kani",
            "level_claimed": {"category": "model_checking", "text": text, "design_ref": "DESIGN.md section " + ref},
            "level_note": NOTE,
            "technique": "bounded model checking with Kani/CBMC (SAT: CaDiCaL) over the compiled macro expansion; symbolic raw values, field values and indices; counterexamples replayed natively",
        })
    na = [{"property_id": k, "reason": v} for k, v in sorted(NA.items())]
    for pid in [f"C{i:02d}" for i in range(1, 20)]:
        if pid not in props.PLANS and pid not in NA:
            na.append({"property_id": pid, "reason": "check not built yet in this revision (planned, see DESIGN.md section 4)"})
    m = {
        "version": 1,
        "setup_cmd": "true",
        "hooks": {"guard": "bitbybit_verif", "enable": "none needed: Kani consumes the macro expansion through rustc itself; no source hooks exist", "baseline_off_cmd": "cd /repo && cargo test --workspace --no-fail-fast --offline", "source_commits": [], "add_only": True},
        "engines": [{"name": "kani", "path": "/verif/vlib", "serves_properties": sorted(props.PLANS), "kind_free_text": "Kani 0.68 / CBMC 6.11 bounded model checker driven by a Python corpus+harness generator; native replay of counterexamples"}],
        "checks": checks,
        "not_applicable": sorted(na, key=lambda x: x["property_id"]),
        "notes": "exit codes: 0 held on everything explored, 1 reproduced violation (VIOLATION line), 2 inconclusive (timeout / OOM / pipeline self-test failed / unreproduced counterexample). VERIF_SEED changes only the random part of a corpus.",
    }
    json.dump(m, open(os.path.join(os.path.dirname(os.path.abspath(__file__)), "MANIFEST.json"), "w"), indent=1)

main()
