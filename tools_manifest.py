#!/usr/bin/env python3
"""Regenerates MANIFEST.json from the table below (kept in one place so it stays valid)."""
import json, os
from vlib import props

NA = {
    "C15": "const-evaluability is a type-system fact decided by rustc's const checker: there is no input, schedule or state for a solver to range over; 'compile-time result == run-time result' follows from C01-C08 plus determinism of safe integer code. A compile test is a different technique (DESIGN.md section 5).",
    "C17": "presence/absence of accessors is name resolution (E0599), nothing a solver can quantify over; presence is exercised by every other check (a missing accessor surfaces there as an api-shape violation), the semantic half is C02's non-interference clause (DESIGN.md section 5).",
    "C18": "no_std / deny(missing_docs) / absence of `unsafe` are compile-regime and token-stream facts; nothing is executed, so there is nothing to encode for a solver (DESIGN.md section 5).",
}
LEVEL = {
    "C01": ("getter == bit-by-bit reference extract for ALL raw values of every layout in the corpus; the solver verdict is complete per layout (no input-dependent loops), the layout corpus is the bound", "4 C01"),
    "C02": ("with_/set_ == reference scatter, read-back and receiver-unchanged for ALL (raw, value) pairs of every layout in the corpus", "4 C02"),
    "C03": ("array getter/with_/set_ == reference at lo+i*stride for ALL raw/value/in-range index; for ALL indices >= K the operation cannot return (marker unreachable) and is stopped by a profile-independent panic", "4 C03"),
    "C04": ("gather/scatter over ordered range lists (and arrays of them) == reference for ALL inputs per layout", "4 C04"),
    "C05": ("two's-complement read, exact N-bit write, no bit outside the field changes, for ALL raw values and ALL iN values per layout", "4 C05"),
    "C06": ("raw round trip for ALL raw values of 19 (quick) / 127 (thorough) bases; ZERO/DEFAULT/Default/new, size, align, Copy as ground obligations", "4 C06"),
    "C07": ("both enum conversions == reference table for ALL N-bit values and ALL variants of every enum in the corpus; no check (incl. unreachable!()) can fail", "4 C07"),
    "C08": ("enum/custom/nested typed fields: getter == T::new_with_raw_value(reference bits), setter writes T::raw_value() bits, for ALL inputs per layout", "4 C08"),
    "C09": ("partly claimed: rule-valid declarations must compile (concrete run of the macro in both host profiles); every rule-invalid candidate is either rejected or its accepted expansion must satisfy a soundness spec for ALL inputs, which the solver decides", "4 C09"),
    "C10": ("partly claimed: rule-valid enums must compile; for every accepted enum the solver decides totality/exactness for ALL raw values, Err-reachability for non-exhaustive ones, representability of every variant", "4 C10"),
    "C11": ("representation invariant storage < 2^N: base and inductive step are solver queries per layout and operation (ALL states, ALL arguments); raw_value() shows the whole state; re-wrapped value indistinguishable", "4 C11"),
    "C12": ("one symbolic write from an ARBITRARY state agrees with the reference register (closes all histories by induction on the single-word state) + direct symbolic histories of length 3 (quick) / 4 (thorough); commutation of disjoint writes", "4 C12"),
    "C13": ("builder()...build() == fold of reference writes from the declared default for ALL argument tuples of every builder-eligible layout in the corpus", "4 C13"),
    "C14": ("partly claimed: builder offered => every field reads back its argument for ALL argument tuples and (no default) all-ones is buildable; eligible => offered. Not claimed: rejection of incomplete chains by the type checker", "4 C14"),
    "C16": ("no CBMC property (overflow, shift, assert!, unreachable!, arbitrary-int assertions, pointer checks) of any generated operation can fail for ANY input on a boundary corpus; only an out-of-range index panics", "4 C16"),
    "C19": ("for ALL raw values the Debug impl hands (struct name, field names in declaration order, getter values, one finish) to core's DebugStruct builder (stubbed by recorders); real text compared natively on sampled raw values", "4 C19"),
}
NOTE = "Trusted: rustc/Kani MIR->GOTO translation, CBMC 6.11 + CaDiCaL, arbitrary-int 1.3.0 as locked (its real bodies are executed), the reference register rt/spec.rs (validated on the repository's documented examples each run). Bound: the layout corpus enumerated by the run (see evidence.bounds)."

def main():
    checks = []
    for pid in sorted(props.PLANS):
        text, ref = LEVEL.get(pid, ("see DESIGN.md", "4 " + pid))
        checks.append({
            "property_id": pid,
            "quick_cmd": f"./check {pid} --tier quick",
            "thorough_cmd": f"./check {pid} --tier thorough",
            "evidence_file": f"/verif/evidence/{pid}.json",
            "replay_cmd_template": "./check replay {path}",
            "engine": "kani",
            "level_claimed": {"category": "model_checking", "text": text, "design_ref": "DESIGN.md section " + ref},
            "level_note": NOTE,
            "technique": "bounded model checking with Kani/CBMC (SAT: CaDiCaL) over the compiled macro expansion; symbolic raw values, field values and indices; counterexamples replayed natively",
        })
    na = [{"property_id": k, "reason": v} for k, v in sorted(NA.items())]
    for pid in [f"C{i:02d}" for i in range(1, 20)]:
        if pid not in props.PLANS and pid not in NA:
            na.append({"property_id": pid, "reason": "check not built yet in this revision (planned, see DESIGN.md section 4)"})
    m = {
        "version": 1,
        "setup_cmd": "true",
        "hooks": {"guard": "bitbybit_verif", "enable": "none needed: Kani consumes the macro expansion through rustc itself; no source hooks exist", "baseline_off_cmd": "cd /repo && cargo test --workspace --no-fail-fast --offline", "source_commits": [], "add_only": True},
        "engines": [{"name": "kani", "path": "/verif/vlib", "serves_properties": sorted(props.PLANS), "kind_free_text": "Kani 0.68 / CBMC 6.11 bounded model checker driven by a Python corpus+harness generator; native replay of counterexamples"}],
        "checks": checks,
        "not_applicable": sorted(na, key=lambda x: x["property_id"]),
        "notes": "exit codes: 0 held on everything explored, 1 reproduced violation (VIOLATION line), 2 inconclusive (timeout / OOM / pipeline self-test failed / unreproduced counterexample). VERIF_SEED changes only the random part of a corpus.",
    }
    json.dump(m, open(os.path.join(os.path.dirname(os.path.abspath(__file__)), "MANIFEST.json"), "w"), indent=1)

main()
