#!/usr/bin/env python3
"""Evaluate a seeded change against the checks, in a scratch worktree of /repo (never /repo itself).

  tools/seedtest.py <seed-dir> [--checks C01,C02 | --all] [--tier quick] [--confirm]

<seed-dir> holds patch.diff and demo.rs|demo.sh. With --confirm the script first verifies the
claims made for the change: the patch applies, the pinned suite still passes 128/128, the demo
fails with the change and passes without. Results are written to <seed-dir>/result_<tier>.json;
evidence / replays / work of these runs go to a scratch area, not to /verif."""
import argparse, json, os, re, shutil, subprocess, sys, time

VERIF = os.path.dirname(os.path.dirname(os.path.abspath(__file__)))
ALL = ["C01", "C02", "C03", "C04", "C05", "C06", "C07", "C08", "C09", "C10", "C11", "C12", "C13", "C14", "C16", "C19"]


def sh(cmd, cwd=None, env=None, timeout=3600):
    p = subprocess.run(cmd, cwd=cwd, env=env, stdout=subprocess.PIPE, stderr=subprocess.STDOUT, text=True, timeout=timeout, shell=isinstance(cmd, str))
    return p.returncode, p.stdout


def suite(wt):
    rc, out = sh("cargo test --workspace --no-fail-fast --offline 2>&1", cwd=wt)
    m = re.findall(r"test result: (\w+)\. (\d+) passed; (\d+) failed", out)
    passed = sum(int(a) for (_, a, _) in m)
    failed = sum(int(b) for (_, _, b) in m)
    return rc, passed, failed, out[-1500:]


def demo(wt, sd):
    if os.path.exists(os.path.join(sd, "demo.rs")) and not os.path.exists(os.path.join(sd, "demo.sh")):
        os.makedirs(os.path.join(wt, "bitbybit-tests", "tests"), exist_ok=True)
        shutil.copy(os.path.join(sd, "demo.rs"), os.path.join(wt, "bitbybit-tests", "tests", "seed_demo.rs"))
        rc, out = sh("cargo test --offline -p bitbybit-tests --test seed_demo 2>&1", cwd=wt)
        os.remove(os.path.join(wt, "bitbybit-tests", "tests", "seed_demo.rs"))
        return rc, out[-1200:]
    if os.path.exists(os.path.join(sd, "demo.sh")):
        env = dict(os.environ, WT=wt)
        rc, out = sh(["bash", os.path.join(sd, "demo.sh"), wt], cwd=wt, env=env)
        return rc, out[-1200:]
    return None, "no demo"


def main():
    ap = argparse.ArgumentParser()
    ap.add_argument("seed")
    ap.add_argument("--checks", default="")
    ap.add_argument("--all", action="store_true")
    ap.add_argument("--tier", default="quick")
    ap.add_argument("--confirm", action="store_true")
    ap.add_argument("--keep", action="store_true")
    ap.add_argument("--base", default="HEAD", help="commit of /repo the patch was made against")
    a = ap.parse_args()
    sd = os.path.abspath(a.seed)
    name = os.path.basename(sd.rstrip("/"))
    scratch = f"/tmp/seedtest/{name}"
    shutil.rmtree(scratch, ignore_errors=True)
    os.makedirs(scratch)
    wt = os.path.join(scratch, "wt")
    sh(["git", "-C", "/repo", "worktree", "prune"])
    rc, out = sh(["git", "-C", "/repo", "worktree", "add", "-q", "--detach", wt, a.base])
    if rc:
        print(out)
        sys.exit(2)
    shutil.copy("/repo/Cargo.lock", os.path.join(wt, "Cargo.lock"))
    res = {"seed": name, "tier": a.tier, "base": a.base, "checks": {}}
    try:
        if a.confirm:
            rc0, out0 = demo(wt, sd)
            res["demo_without_change"] = {"rc": rc0, "tail": out0[-400:]}
        rc, out = sh(["git", "-C", wt, "apply", os.path.join(sd, "patch.diff")])
        if rc:
            # the patch was written against an older HEAD (before later fix: commits): try a 3-way merge
            rc, out2 = sh(["git", "-C", wt, "apply", "--3way", os.path.join(sd, "patch.diff")])
            res["applied_3way"] = (rc == 0)
            if rc == 0:
                sh(["git", "-C", wt, "reset", "-q"])
            out += out2
        res["applies"] = (rc == 0)
        if rc:
            res["apply_error"] = out
            with open(os.path.join(sd, f"result_{a.tier}.json"), "w") as fh:
                json.dump(res, fh, indent=1)
            print(json.dumps(res, indent=1))
            return
        if a.confirm:
            rc, p, f, tail = suite(wt)
            res["suite_with_change"] = {"rc": rc, "passed": p, "failed": f}
            rc1, out1 = demo(wt, sd)
            res["demo_with_change"] = {"rc": rc1, "tail": out1[-600:]}
            res["confirmed"] = bool(rc == 0 and p == 128 and f == 0 and rc0 == 0 and rc1 not in (0, None))
        checks = ALL if a.all else [c for c in a.checks.split(",") if c]
        for c in checks:
            env = dict(os.environ, VERIF_REPO=wt, VERIF_WORK=os.path.join(scratch, "work"), VERIF_OUT=os.path.join(scratch, "out"), VERIF_TIER=a.tier)
            t0 = time.time()
            rc, out = sh([os.path.join(VERIF, "check"), c, "--tier", a.tier], cwd=VERIF, env=env, timeout=4 * 3600)
            viol = [l for l in out.splitlines() if l.startswith("VIOLATION")]
            det = [l for l in out.splitlines() if l.startswith("  ->")]
            res["checks"][c] = {"rc": rc, "violations": len(viol), "first": det[:3], "inconclusive": [l for l in out.splitlines() if l.startswith("INCONCLUSIVE")][:3], "wall_s": round(time.time() - t0, 1)}
            # keep one replay file as a sample
            if viol:
                m = re.search(r"replay=(\S+)", viol[0])
                if m and os.path.exists(m.group(1)):
                    os.makedirs(os.path.join(sd, "replays"), exist_ok=True)
                    shutil.copy(m.group(1), os.path.join(sd, "replays", f"{c}_{a.tier}_" + os.path.basename(m.group(1))))
            print(f"{name} {c} {a.tier}: rc={rc} violations={len(viol)} {det[:1]}", flush=True)
    finally:
        if not a.keep:
            sh(["git", "-C", "/repo", "worktree", "remove", "--force", wt])
            shutil.rmtree(scratch, ignore_errors=True)
    with open(os.path.join(sd, f"result_{a.tier}.json"), "w") as fh:
        json.dump(res, fh, indent=1)
    print(json.dumps({k: v for k, v in res.items() if k != "checks"}, indent=1))


main()
