#!/bin/bash
# run every registered check (quick or thorough) on /repo, one after the other; summary on stdout
cd "$(dirname "$0")/.."
tier=${1:-quick}
for p in ${RUN_ALL_ORDER:-C01 C02 C03 C04 C05 C06 C07 C08 C09 C10 C11 C12 C13 C14 C16 C19}; do
  s=$(date +%s)
  ./check $p --tier $tier > /tmp/run_all_$p.out 2>&1
  rc=$?
  e=$(( $(date +%s) - s ))
  echo "$p rc=$rc ${e}s $(grep -c '^VIOLATION' /tmp/run_all_$p.out) violations; $(grep "$tier:" /tmp/run_all_$p.out | tail -1)"
done
