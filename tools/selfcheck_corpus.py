#!/usr/bin/env python3
"""Generator self-check (pure Python, no compiler): for many seeds and both tiers, every unit that the
plans present as rule-valid must be rule-valid by the oracle, every candidate presented as invalid must
be invalid, unit ids must be unique, and layouts must be internally consistent."""
import sys, os
sys.path.insert(0, os.path.join(os.path.dirname(os.path.abspath(__file__)), ".."))
from vlib import props
from vlib.model import Layout, EnumDef
bad = 0
seeds = range(int(sys.argv[1]) if len(sys.argv) > 1 else 12)
for tier in ("quick", "thorough"):
    for seed in seeds:
        for pid, fn in sorted(props.PLANS.items()):
            if tier == "thorough" and seed > 2:
                continue
            pl = fn(tier, seed)
            ids = set()
            for u in list(pl.units) + list(pl.extra_accept_units):
                if u.uid in ids:
                    print("DUPLICATE", pid, tier, seed, u.uid); bad += 1
                ids.add(u.uid)
                L = u.meta.get("layout")
                E = u.meta.get("enum")
                claimed = u.meta.get("valid")
                if isinstance(L, Layout):
                    rv = L.rule_valid()
                    if claimed is not False and not rv:
                        print("INVALID-AS-VALID", pid, tier, seed, u.uid, L.tag, "\n", L.decl()); bad += 1
                    if claimed is False and rv and pid not in ("C06",):
                        print("VALID-AS-INVALID", pid, tier, seed, u.uid, L.tag); bad += 1
                    for f in L.fields:
                        if f.array and f.array[0] >= 2 and f.raw_attr is None and claimed is not False:
                            assert max(f.all_positions()) < L.base
                if isinstance(E, EnumDef):
                    rv = E.rule_valid()
                    if claimed is not False and not rv:
                        print("ENUM INVALID-AS-VALID", pid, tier, seed, u.uid, E.tag); bad += 1
                    if claimed is False and rv:
                        print("ENUM VALID-AS-INVALID", pid, tier, seed, u.uid, E.tag); bad += 1
        print(tier, seed, "ok" if not bad else f"{bad} problems", flush=True)
sys.exit(1 if bad else 0)
