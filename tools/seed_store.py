#!/usr/bin/env python3
"""Copy confirmed seeded changes from the scratch area into /verif/seeded/<id>/ with a meta.json."""
import json, os, re, shutil, sys, ast
src = sys.argv[1] if len(sys.argv) > 1 else "/tmp/seeds"
desc = json.load(open(os.path.join(src, sys.argv[2] if len(sys.argv) > 2 else "desc.json")))
first = {}
for fn in (sys.argv[3] if len(sys.argv) > 3 else "summary_round1.txt",):
    p = os.path.join(src, fn)
    if os.path.exists(p):
        for line in open(p):
            m = re.match(r"(\S+) confirmed=(\S+) (\{.*?\}) ", line)
            if m and m.group(1) not in first:
                first[m.group(1)] = ast.literal_eval(m.group(3))
for name, (pid, what, needs) in sorted(desc.items()):
    sd = os.path.join(src, name)
    rp = os.path.join(sd, "result_quick.json")
    if not os.path.exists(rp):
        print("skip (no result)", name)
        continue
    r = json.load(open(rp))
    if not r.get("confirmed"):
        print("skip (unconfirmed)", name)
        continue
    dst = os.path.join("/verif/seeded", name)
    os.makedirs(dst, exist_ok=True)
    for fn in ("patch.diff", "demo.rs", "demo.sh", "NOTES.md"):
        if os.path.exists(os.path.join(sd, fn)):
            shutil.copy(os.path.join(sd, fn), os.path.join(dst, fn))
    if os.path.isdir(os.path.join(sd, "replays")):
        shutil.rmtree(os.path.join(dst, "replays"), ignore_errors=True)
        shutil.copytree(os.path.join(sd, "replays"), os.path.join(dst, "replays"))
    old = {}
    if os.path.exists(os.path.join(dst, "meta.json")):
        old = json.load(open(os.path.join(dst, "meta.json")))
    caught = dict(old.get("checks_latest", {}))
    for c, v in r["checks"].items():
        caught[c] = {"exit": v["rc"], "violations": v["violations"], "first": (v["first"] or [""])[0].strip()[:300]}
    meta = {
        "id": name, "property": pid, "origin": "independent sub-agent given only the property text and a scratch worktree",
        "change": what, "needs_to_manifest": needs,
        "confirmed_by_me": {"patch_applies_to_repo_HEAD": r.get("applies"), "pinned_suite_with_change": r.get("suite_with_change"),
                            "demo_without_change_exit": r.get("demo_without_change", {}).get("rc"), "demo_with_change_exit": r.get("demo_with_change", {}).get("rc"),
                            "how": "tools/seedtest.py --confirm: scratch worktree of /repo HEAD, git apply, cargo test --workspace --offline, demo copied to bitbybit-tests/tests/ (or demo.sh) before and after the patch"},
        "checks_first_run": old.get("checks_first_run") or {c: {"exit": v[0], "violations": v[1]} for c, v in first.get(name, {}).items()},
        "checks_latest": caught,
        "caught_by": sorted(c for c, v in caught.items() if v["exit"] == 1),
    }
    json.dump(meta, open(os.path.join(dst, "meta.json"), "w"), indent=1)
    print(name, "first:", {c: v["exit"] for c, v in meta["checks_first_run"].items()}, "latest:", {c: v["exit"] for c, v in caught.items()})
