#!/usr/bin/env python3
"""Print the seeded-change table (markdown) from seeded/*/meta.json."""
import json, glob, os
rows = []
for p in sorted(glob.glob(os.path.join(os.path.dirname(os.path.abspath(__file__)), "..", "seeded", "*", "meta.json"))):
    m = json.load(open(p))
    first = ", ".join(f"{c}:{'caught' if v.get('exit') == 1 else 'missed'}" for c, v in sorted(m["checks_first_run"].items())) or "-"
    latest = ", ".join(sorted(m["caught_by"])) or "NONE"
    rows.append(f"| {m['id']} | {m['property']} | {m['change'][:110]} | {m['needs_to_manifest'][:150]} | {first} | {latest} |")
print("| seed | target | change | needs, to manifest | first run | caught by (latest) |")
print("|---|---|---|---|---|---|")
print("\n".join(rows))
