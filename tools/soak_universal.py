#!/usr/bin/env python3
"""Soak test of the universal random struct generator and the harness emitters on the CLEAN tree:
for each property, many seeds' worth of universal units in one run. Anything other than 'no negative
control' in the output is a bug in the generator / emitters (or a genuine finding)."""
import os, sys
sys.path.insert(0, os.path.join(os.path.dirname(os.path.abspath(__file__)), ".."))
os.environ.setdefault("VERIF_WORK", "/tmp/soak/work")
os.environ.setdefault("VERIF_OUT", "/tmp/soak/out")
from vlib import props, run as R
pids = sys.argv[1].split(",")
seeds = range(int(sys.argv[2]), int(sys.argv[3]))
for pid in pids:
    units = []
    plan0 = None
    for sd in seeds:
        pl = props.PLANS[pid]("quick", sd)
        plan0 = plan0 or pl
        for u in pl.units:
            if u.meta.get("origin") == "universal":
                u.uid = f"u{sd:03d}x{u.uid[1:]}"
                units.append(u)
    plan0.units = units
    plan0.extra_accept_units = []
    plan0.native_cases = []
    r = R.Runner(pid, "quick", 0, os.environ.get("VERIF_REPO", "/repo"))
    rc = r.execute(plan0)
    print(f"SOAK {pid}: rc={rc} units={len(units)} notes={r.universal_notes[:5]} inconclusive={[m[:200] for m in r.inconclusive if 'negative control' not in m][:5]}", flush=True)
